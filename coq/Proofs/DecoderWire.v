(* C16, agreement clause: whenever the model of the full decoder (Model/Decoder.v, any option set, any read-buffer size)
   decodes a byte string to the end, the model of the raw decoder (Model/Raw.v) accepts it too, and the raw segments are,
   one for one and in order, the events of the full decoder: file header (size, data size), message definition (header
   byte, reserved, architecture, global number, field and developer-field definitions), message data (header byte) and CRC.

   The proof follows the full decoder through every function that reads ("forward": from a successful result to the number
   of bytes it consumed -- 5 + 3n (+ 1 + 3m) for a definition, the sum of the declared sizes for a data message whatever the
   interpretation of the bytes), keeps the raw decoder's length table equal to the lengths the live definitions announce,
   and replays each read on the raw side. *)
From Coq Require Import NArith ZArith List Lia Bool ZifyN ZifyNat ZifyBool.
Import ListNotations.
From Fit Require Import Model.Decoder Model.Raw Proofs.RawSafety Proofs.EncoderProofs Proofs.AcceptProofs Proofs.IntegrityModel Proofs.RawWire Proofs.GrammarProofs Proofs.ApiIndependence.
Open Scope N_scope.
#[local] Arguments N.add : simpl never.
#[local] Arguments N.mul : simpl never.
#[local] Arguments N.sub : simpl never.

(* ---------------------------------------------------------------- successful results only *)
Definition wpost {A} (r : outcome A) (Q : A -> Prop) : Prop := match r with Ok a => Q a | _ => True end.
Lemma wpost_bind {A B} (x : outcome A) (f : A -> outcome B) (P : A -> Prop) (Q : B -> Prop) :
  wpost x P -> (forall a, P a -> wpost (f a) Q) -> wpost (bind x f) Q.
Proof. destruct x; cbn; intros Hx Hf; auto. Qed.
Lemma bind_assoc {A B C} (x : outcome A) (f : A -> outcome B) (g : B -> outcome C) :
  bind (bind x f) g = bind x (fun a => bind (f a) g).
Proof. destruct x; reflexivity. Qed.
Lemma wpost_any {A} (x : outcome A) : wpost x (fun _ => True).
Proof. destruct x; exact I. Qed.
Lemma wpost_weaken {A} (r : outcome A) (P Q : A -> Prop) : wpost r P -> (forall a, P a -> Q a) -> wpost r Q.
Proof. destruct r; cbn; auto. Qed.
Lemma wpost_elim {A} (r : outcome A) Q a : wpost r Q -> r = Ok a -> Q a.
Proof. intros H ->. exact H. Qed.

(* ---------------------------------------------------------------- what a step does to the stream *)
Definition keeps (s s' : dstate) : Prop := s_defs s' = s_defs s /\ s_header s' = s_header s /\ s_events s' = s_events s.
(* [adv k s s']: s' is s after exactly k more bytes were consumed through readN (counted in cur) *)
Definition adv (k : N) (s s' : dstate) : Prop :=
  k <= len (s_rest s) /\ s_rest s' = drop k (s_rest s) /\ bufok s' /\ s_cur s' = wrap 32 (s_cur s + k) /\ keeps s s'.
(* an update that touches neither stream, counter, definitions, header nor events *)
Definition sameio (s s' : dstate) : Prop :=
  s_rest s' = s_rest s /\ s_buf s' = s_buf s /\ s_cur s' = s_cur s /\ keeps s s'.

Lemma keeps_refl s : keeps s s. Proof. repeat split. Qed.
Lemma keeps_trans a b c : keeps a b -> keeps b c -> keeps a c.
Proof. intros (A1 & A2 & A3) (B1 & B2 & B3). unfold keeps. rewrite B1, B2, B3. auto. Qed.
Lemma sameio_refl s : sameio s s. Proof. repeat split. Qed.
Lemma sameio_trans a b c : sameio a b -> sameio b c -> sameio a c.
Proof. intros (A1 & A2 & A3 & A4) (B1 & B2 & B3 & B4). unfold sameio. rewrite B1, B2, B3. split; [exact A1|]. split; [exact A2|]. split; [exact A3|]. eapply keeps_trans; eassumption. Qed.
Lemma sio_upd_crc s x : sameio s (upd_crc s x). Proof. repeat split. Qed.
Lemma sio_upd_time s a b : sameio s (upd_time s a b). Proof. repeat split. Qed.
Lemma sio_upd_acc s a : sameio s (upd_acc s a). Proof. repeat split. Qed.
Lemma sio_upd_dev s a b : sameio s (upd_dev s a b). Proof. repeat split. Qed.
Lemma sio_upd_fileid s a : sameio s (upd_fileid s a). Proof. repeat split. Qed.

Lemma wrap_idem w x : wrap w (wrap w x) = wrap w x.
Proof. unfold wrap. apply N.mod_mod. apply N.pow_nonzero. lia. Qed.

Lemma adv_0 s : bufok s -> s_cur s < 4294967296 -> adv 0 s s.
Proof.
  intros Hb Hc. unfold adv. split; [lia|]. split; [reflexivity|]. split; [exact Hb|]. split; [|apply keeps_refl].
  rewrite N.add_0_r. symmetry. apply wrap32_small. exact Hc.
Qed.
Lemma adv_sameio_r k s s1 s2 : adv k s s1 -> sameio s1 s2 -> adv k s s2.
Proof.
  intros (A1 & A2 & A3 & A4 & A5) (B1 & B2 & B3 & B4). unfold adv, bufok in *. rewrite B1, B2, B3.
  repeat split; auto; try (eapply keeps_trans; eassumption); apply (keeps_trans _ _ _ A5 B4).
Qed.
Lemma adv_sameio_l k s s1 s2 : sameio s s1 -> adv k s1 s2 -> adv k s s2.
Proof.
  intros (B1 & B2 & B3 & B4) (A1 & A2 & A3 & A4 & A5). unfold adv in *. rewrite B1, B3 in *.
  repeat split; auto; apply (keeps_trans _ _ _ B4 A5).
Qed.
Lemma adv_trans k1 k2 s s1 s2 : adv k1 s s1 -> adv k2 s1 s2 -> adv (k1 + k2) s s2.
Proof.
  intros (A1 & A2 & A3 & A4 & A5) (B1 & B2 & B3 & B4 & B5). unfold adv.
  rewrite A2, len_drop' in B1. split; [lia|]. split; [rewrite B2, A2, drop_drop'; reflexivity|]. split; [exact B3|].
  split; [rewrite B4, A4, wrap_add; f_equal; lia|]. eapply keeps_trans; eassumption.
Qed.
Lemma adv_cur_small k s s' : adv k s s' -> s_cur s' < 4294967296.
Proof. intros (_ & _ & _ & -> & _). apply (wrap_lt 32). Qed.

(* ---------------------------------------------------------------- reads, forward *)
Lemma read_raw_fwd c s n : bufok s ->
  wpost (read_raw c s n) (fun r => fst r = take n (s_rest s) /\ n <= len (s_rest s) /\ s_rest (snd r) = drop n (s_rest s) /\ bufok (snd r)
                                   /\ s_cur (snd r) = s_cur s /\ keeps s (snd r)).
Proof.
  unfold bufok, read_raw. intros Hb.
  destruct (n <=? s_buf s) eqn:E1.
  - cbn. unfold keeps. cbn. rewrite len_drop'. repeat split; lia.
  - destruct (n <=? s_buf s + N.min (len (s_rest s) - s_buf s) (c_bufsize c)) eqn:E2; [|exact I].
    cbn. unfold keeps. cbn. rewrite len_drop'. repeat split; lia.
Qed.
Lemma read_n_fwd c s n : bufok s -> wpost (read_n c s n) (fun r => fst r = take n (s_rest s) /\ adv n s (snd r)).
Proof.
  intros Hb. unfold read_n. eapply wpost_bind; [apply read_raw_fwd; exact Hb|].
  intros [b s1] (H1 & H2 & H3 & H4 & H5 & H6). cbn [fst snd] in *. cbn. split; [exact H1|].
  unfold adv, bufok, keeps in *. cbn. rewrite H5. repeat split; try assumption; apply H6.
Qed.

(* ---------------------------------------------------------------- fields: the declared sizes, whatever the bytes mean *)
Definition sum_fd (l : list fdef) : N := fold_right (fun f a => fd_size f + a) 0 l.
Definition sum_dd (l : list ddef) : N := fold_right (fun f a => dd_size f + a) 0 l.

Lemma sameio_bufok s s' : sameio s s' -> bufok s -> bufok s'.
Proof. intros (A1 & A2 & _) H. unfold bufok in *. rewrite A1, A2. exact H. Qed.
Lemma sameio_cur s s' : sameio s s' -> s_cur s' = s_cur s.
Proof. intros (_ & _ & A3 & _). exact A3. Qed.
Lemma adv_bufok k s s' : adv k s s' -> bufok s'.
Proof. intros (_ & _ & H & _). exact H. Qed.

Lemma read_value_fwd c s sz arch base ptype arr ovr : bufok s ->
  wpost (read_value c s sz arch base ptype arr ovr) (fun r => adv sz s (snd r)).
Proof.
  intros Hb. unfold read_value. eapply wpost_bind; [apply read_n_fwd; exact Hb|]. intros [b s1] [_ H]. cbn [fst snd] in H. cbv beta iota zeta.
  eapply wpost_bind; [apply wpost_any|]. intros v _. cbn. exact H.
Qed.

Lemma decode_fields_fwd c arch mesgnum : forall fds s fs, bufok s -> s_cur s < 4294967296 ->
  wpost (decode_fields c s arch mesgnum fds fs) (fun r => adv (sum_fd fds) s (snd r)).
Proof.
  induction fds as [|fd rest IH]; intros s fs Hb Hc; cbn [decode_fields sum_fd fold_right]; [cbn; apply adv_0; assumption|].
  fold (sum_fd rest).
  eapply wpost_bind; [apply wpost_any|]. intros [f ovr] _. cbv beta iota zeta.
  destruct (fd_size fd =? 0) eqn:E0.
  { apply N.eqb_eq in E0. rewrite E0, N.add_0_l. apply IH; assumption. }
  destruct (if fd_size fd <? bt_size (f_base f) then (bt_uint8, pt_Uint8, true) else (f_base f, fb_ptype (f_fb f), fb_array (f_fb f))) as [[rb rp] ra].
  eapply wpost_bind; [apply read_value_fwd; exact Hb|]. intros [v s1] H1. cbn [snd] in H1. cbv beta iota zeta.
  set (v2 := if negb (rb =? f_base f) then convert_bytes_to_value (slice_u8 v) arch (f_base f) else v).
  set (s2 := match v2 with
             | VNum TU32 t0 => if f_num f =? FieldNumTimestamp then upd_time s1 (fst (clock_full t0)) (snd (clock_full t0)) else s1
             | _ => s1 end).
  assert (H2 : sameio s1 s2).
  { unfold s2. destruct v2 as [|ty x|ty l|sv|ss]; try apply sameio_refl. destruct ty; try apply sameio_refl.
    destruct (f_num f =? FieldNumTimestamp); [apply sio_upd_time|apply sameio_refl]. }
  set (s3 := if fb_accum (f_fb f) && c_expand c then upd_acc s2 (collect_accumulable (s_acc s2) mesgnum (f_num f) v2) else s2).
  assert (H3 : sameio s1 s3).
  { unfold s3. destruct (fb_accum (f_fb f) && c_expand c); [eapply sameio_trans; [exact H2|apply sio_upd_acc]|exact H2]. }
  eapply wpost_weaken; [apply IH; [eapply sameio_bufok; [exact H3|eapply adv_bufok; exact H1]|rewrite (sameio_cur _ _ H3); eapply adv_cur_small; exact H1]|].
  intros r Hr. eapply adv_trans; [eapply adv_sameio_r; [exact H1|exact H3]|exact Hr].
Qed.

Lemma decode_dev_fields_fwd c arch : forall dds s out, bufok s -> s_cur s < 4294967296 ->
  wpost (decode_dev_fields c s arch dds out) (fun r => adv (sum_dd dds) s (snd r)).
Proof.
  induction dds as [|dd rest IH]; intros s out Hb Hc; cbn [decode_dev_fields sum_dd fold_right]; [cbn; apply adv_0; assumption|].
  fold (sum_dd rest).
  destruct (find_fdesc (s_fdescs s) (dd_idx dd) (dd_num dd)) as [fdsc|].
  - destruct (negb (bt_valid (fdx_base fdsc))); [exact I|].
    eapply wpost_bind; [apply wpost_any|]. intros dv _.
    destruct (dd_size dd =? 0) eqn:E0.
    { apply N.eqb_eq in E0. rewrite E0, N.add_0_l. apply IH; assumption. }
    destruct (if dd_size dd <? bt_size (fdx_base fdsc) then (bt_uint8, pt_Uint8, true) else (fdx_base fdsc, N.land (fdx_base fdsc) BaseTypeNumMask, dv)) as [[rb rp] ra].
    eapply wpost_bind; [apply read_value_fwd; exact Hb|]. intros [v s1] H1. cbn [snd] in H1. cbv beta iota zeta.
    eapply wpost_weaken; [apply IH; [eapply adv_bufok; exact H1|eapply adv_cur_small; exact H1]|].
    intros r Hr. eapply adv_trans; [exact H1|exact Hr].
  - eapply wpost_bind; [apply read_n_fwd; exact Hb|]. intros [b s1] [_ H1]. cbn [snd] in H1. cbv beta iota zeta.
    eapply wpost_weaken; [apply IH; [eapply adv_bufok; exact H1|eapply adv_cur_small; exact H1]|].
    intros r Hr. eapply adv_trans; [exact H1|exact Hr].
Qed.

(* a data message: its fields, then its developer fields; one EvMesg event carrying the header byte *)
Definition data_post (k : N) (header : N) (s s' : dstate) : Prop :=
  k <= len (s_rest s) /\ s_rest s' = drop k (s_rest s) /\ bufok s' /\ s_cur s' = wrap 32 (s_cur s + k) /\ s_defs s' = s_defs s /\ s_header s' = s_header s
  /\ exists m, m_header m = header /\ s_events s' = EvMesg m :: s_events s.

Lemma decode_data_body_fwd c s header d fs0 : bufok s -> s_cur s < 4294967296 ->
  wpost (decode_data_body c s header d fs0) (data_post (sum_fd (md_fields d) + sum_dd (md_devs d)) header s).
Proof.
  intros Hb Hc. unfold decode_data_body.
  eapply wpost_bind; [apply decode_fields_fwd; assumption|]. intros [fs s1] H1. cbn [fst snd] in *. cbv beta iota zeta.
  set (r2 := if c_expand c then (fst (expand_all (length fs) 0 (md_num d) fs (s_acc s1)), upd_acc s1 (snd (expand_all (length fs) 0 (md_num d) fs (s_acc s1)))) else (fs, s1)).
  assert (H2 : sameio s1 (snd r2)) by (unfold r2; destruct (c_expand c); cbn [snd]; [apply sio_upd_acc|apply sameio_refl]).
  set (fs2 := fst r2). clearbody fs2. set (s2 := snd r2) in *. clearbody s2. clear r2.
  set (s3 := match s_fileid s2 with None => if md_num d =? mesgnum_FileId then upd_fileid s2 (Some (mkmsg header (md_num d) fs2 [])) else s2 | Some _ => s2 end).
  assert (H3 : sameio s2 s3) by (unfold s3; destruct (s_fileid s2); [apply sameio_refl|]; destruct (md_num d =? mesgnum_FileId); [apply sio_upd_fileid|apply sameio_refl]).
  clearbody s3.
  set (s4 := if md_num d =? mesgnum_DeveloperDataId then upd_dev s3 (s_devidx s3 ++ [u8_of (field_value_by_num fs2 fn_DeveloperDataId_DeveloperDataIndex)]) (s_fdescs s3)
             else if md_num d =? mesgnum_FieldDescription then upd_dev s3 (s_devidx s3) (s_fdescs s3 ++ [new_field_description fs2]) else s3).
  assert (H4 : sameio s3 s4).
  { unfold s4. destruct (md_num d =? mesgnum_DeveloperDataId); [apply sio_upd_dev|]. destruct (md_num d =? mesgnum_FieldDescription); [apply sio_upd_dev|apply sameio_refl]. }
  clearbody s4.
  assert (H14 : adv (sum_fd (md_fields d)) s s4) by (eapply adv_sameio_r; [exact H1|]; eapply sameio_trans; [exact H2|]; eapply sameio_trans; eassumption).
  eapply (wpost_bind _ _ (fun r3 => adv (sum_fd (md_fields d) + sum_dd (md_devs d)) s (snd r3))).
  - destruct (md_devs d) as [|d0 ds] eqn:Ed.
    + cbn. rewrite N.add_0_r. exact H14.
    + eapply wpost_weaken; [apply decode_dev_fields_fwd; [eapply adv_bufok; exact H14|eapply adv_cur_small; exact H14]|].
      intros r Hr. eapply adv_trans; [exact H14|exact Hr].
  - intros [dv s5] (A1 & A2 & A3 & A4 & A5 & A6 & A7). cbn [fst snd] in *. cbn.
    unfold data_post. cbn. repeat split; try assumption. eexists. split; [|rewrite A7; reflexivity]. reflexivity.
Qed.

Definition local_ok (h : N) : bool :=
  N.land (if has h MesgCompressedHeaderMask then N.shiftr (N.land h CompressedLocalMesgNumMask) CompressedBitShift else h) LocalMesgNumMask =? local_mesg_num h.
Lemma local_sweep : forallb local_ok (nrange 256 0) = true. Proof. vm_compute. reflexivity. Qed.
Lemma local_same_dec h : h < 256 ->
  N.land (if has h MesgCompressedHeaderMask then N.shiftr (N.land h CompressedLocalMesgNumMask) CompressedBitShift else h) LocalMesgNumMask = local_mesg_num h.
Proof. intros H. pose proof local_sweep as Hs. rewrite forallb_forall in Hs. specialize (Hs h (in_nrange 256 0 h ltac:(lia))). apply N.eqb_eq. exact Hs. Qed.

Lemma decode_data_fwd c s header : bufok s -> s_cur s < 4294967296 -> header < 256 ->
  wpost (decode_data c s header)
        (fun s' => exists d, nth (N.to_nat (local_mesg_num header)) (s_defs s) None = Some d
                             /\ data_post (sum_fd (md_fields d) + sum_dd (md_devs d)) header s s').
Proof.
  intros Hb Hc Hh. unfold decode_data. cbv zeta. rewrite (local_same_dec header Hh).
  destruct (nth (N.to_nat (local_mesg_num header)) (s_defs s) None) as [d|] eqn:En; [|exact I].
  destruct (has header MesgCompressedHeaderMask).
  - set (s1 := upd_time s _ _).
    eapply wpost_weaken; [apply (decode_data_body_fwd c s1); [exact Hb|exact Hc]|].
    intros s' H. exists d. split; [reflexivity|exact H].
  - eapply wpost_weaken; [apply (decode_data_body_fwd c s); [exact Hb|exact Hc]|].
    intros s' H. exists d. split; [reflexivity|exact H].
Qed.

(* ---------------------------------------------------------------- items: what both decoders report, in order *)
Inductive item := IHeader (size datasize : N) | IDef (d : mdef) | IData (header : N) | ICrc (crc : N).
Definition ev_item (e : event) : item :=
  match e with EvHeader h => IHeader (h_size h) (h_datasize h) | EvDef d => IDef d | EvMesg m => IData (m_header m) | EvCrc c => ICrc c end.
(* a definition record read back from the raw segment's bytes *)
Definition def_of_seg (b : bytes) : option mdef :=
  match b with
  | h :: reserved :: arch :: m0 :: m1 :: n :: rest =>
      let fb := take (n * 3) rest in
      match parse_fdefs (length fb) fb with
      | Ok fds =>
          let dds := if has h DevDataMask
                     then match drop (n * 3) rest with m :: r2 => parse_ddefs (length (take (m * 3) r2)) (take (m * 3) r2) | [] => [] end
                     else [] in
          Some (mkmd h reserved arch (dec (negb (arch =? LittleEndian)) [m0; m1]) fds dds)
      | _ => None
      end
  | _ => None
  end.
Definition seg_item (sg : rsegment) : option item :=
  match sg with
  | (RFHeader, b) => Some (IHeader (nth 0 b 0) (le_word (take 4 (drop 4 b))))
  | (RFDef, b) => option_map IDef (def_of_seg b)
  | (RFData, h :: _) => Some (IData h)
  | (RFData, []) => None
  | (RFCrc, b) => Some (ICrc (le_word b))
  end.
Definition items_agree (evs : list event) (segs : list rsegment) : Prop :=
  map (fun e => Some (ev_item e)) evs = map seg_item segs.

(* the raw decoder's length table is what the live definitions announce *)
Definition mesg_len (d : mdef) : N := 1 + sum_fd (md_fields d) + sum_dd (md_devs d).
Definition lens_rel (defs : list (option mdef)) (lens : list N) : Prop :=
  length defs = 16%nat /\ length lens = 16%nat /\
  forall i, (i < 16)%nat -> nth i lens 0 = match nth i defs None with None => 0 | Some d => mesg_len d end.

Lemma lens_rel_init : lens_rel no_defs (repeat 0 16).
Proof. split; [reflexivity|]. split; [reflexivity|]. intros i Hi. do 16 (destruct i as [|i]; [reflexivity|]). lia. Qed.
Lemma lens_rel_replace defs lens i d : lens_rel defs lens -> (i < 16)%nat ->
  lens_rel (replace_nth defs i (Some d)) (replace_nth lens i (mesg_len d)).
Proof.
  intros (L1 & L2 & H) Hi. split; [rewrite replace_nth_length; exact L1|]. split; [rewrite replace_nth_length; exact L2|].
  intros j Hj. destruct (Nat.eq_dec i j) as [<-|Hn].
  - rewrite !nth_replace_same by lia. reflexivity.
  - rewrite !nth_replace_other by exact Hn. apply H. exact Hj.
Qed.

Lemma sum_fd_bound l : Forall (fun f => fd_size f < 256) l -> sum_fd l <= 255 * len l.
Proof. induction 1 as [|x l Hx Hl IH]; unfold len in *; cbn [sum_fd fold_right length]; [lia|]. fold (sum_fd l). lia. Qed.
Lemma sum_dd_bound l : Forall (fun f => dd_size f < 256) l -> sum_dd l <= 255 * len l.
Proof. induction 1 as [|x l Hx Hl IH]; unfold len in *; cbn [sum_dd fold_right length]; [lia|]. fold (sum_dd l). lia. Qed.

(* the sums the raw decoder takes over the bytes are the sums over the parsed definitions *)
Lemma parse_fdefs_sum : forall fuel b fds, (length b <= 3 * fuel)%nat -> parse_fdefs fuel b = Ok fds -> sum_fd fds = sizes_sum b.
Proof.
  induction fuel as [|fuel IH]; intros b fds Hl; cbn [parse_fdefs].
  - destruct b; [|cbn [length] in Hl; lia]. intros H. injection H as <-. reflexivity.
  - destruct b as [|num [|size [|base r]]]; try (intros H; injection H as <-; reflexivity).
    destruct (bt_valid base); [|discriminate]. unfold bind. destruct (parse_fdefs fuel r) as [rest| | |] eqn:Er; try discriminate.
    intros H. injection H as <-. cbn [sum_fd fold_right fd_size sizes_sum]. fold (sum_fd rest). f_equal. apply IH; [cbn [length] in Hl; lia|exact Er].
Qed.
Lemma parse_fdefs_len : forall fuel b fds, parse_fdefs fuel b = Ok fds -> (3 * length fds <= length b)%nat.
Proof.
  induction fuel as [|fuel IH]; intros b fds; cbn [parse_fdefs]; [intros H; injection H as <-; cbn; lia|].
  destruct b as [|num [|size [|base r]]]; try (intros H; injection H as <-; cbn; lia).
  destruct (bt_valid base); [|discriminate]. unfold bind. destruct (parse_fdefs fuel r) as [rest| | |] eqn:Er; try discriminate.
  intros H. injection H as <-. specialize (IH _ _ Er). cbn [length]. lia.
Qed.
Lemma parse_ddefs_sum : forall fuel b, (length b <= 3 * fuel)%nat -> sum_dd (parse_ddefs fuel b) = sizes_sum b.
Proof.
  induction fuel as [|fuel IH]; intros b Hl; cbn [parse_ddefs].
  - destruct b; [reflexivity|cbn [length] in Hl; lia].
  - destruct b as [|num [|size [|idx r]]]; try reflexivity.
    cbn [sum_dd fold_right dd_size sizes_sum]. fold (sum_dd (parse_ddefs fuel r)). f_equal. apply IH. cbn [length] in Hl. lia.
Qed.
Lemma parse_ddefs_len : forall fuel b, (3 * length (parse_ddefs fuel b) <= length b)%nat.
Proof.
  induction fuel as [|fuel IH]; intros b; cbn [parse_ddefs]; [cbn; lia|].
  destruct b as [|num [|size [|idx r]]]; try (cbn; lia). specialize (IH r). cbn [length]. lia.
Qed.

Lemma read_full_ok r k : k <= len (r_rest r) ->
  exists r', read_full r k = (take k (r_rest r), None, r') /\ r_rest r' = drop k (r_rest r) /\ r_n r' = r_n r + k /\ r_segs r' = r_segs r.
Proof.
  intros H. unfold read_full. destruct (k =? 0) eqn:E0.
  - apply N.eqb_eq in E0. subst k. exists r. unfold take, drop. cbn. repeat split. lia.
  - replace (k <=? len (r_rest r)) with true by (symmetry; apply N.leb_le; exact H). eexists. split; [reflexivity|]. cbn. repeat split.
Qed.

(* ---------------------------------------------------------------- the simulation *)
Record sim (s : dstate) (r : rstate) (pos : N) (lens : list N) : Prop := mksim {
  sim_rest : s_rest s = r_rest r;
  sim_buf : bufok s;
  sim_pos : pos <= r_n r;
  sim_cur : s_cur s = wrap 32 (r_n r - pos);
  sim_items : items_agree (s_events s) (r_segs r);
  sim_lens : lens_rel (s_defs s) lens;
  sim_small : defs_small (s_defs s);
  sim_ok : bytes_ok (s_rest s) }.

Lemma read_n_couple c s r n : bufok s -> s_rest s = r_rest r ->
  wpost (read_n c s n) (fun x => adv n s (snd x) /\ fst x = take n (s_rest s) /\
     exists r', read_full r n = (fst x, None, r') /\ s_rest (snd x) = r_rest r' /\ r_n r' = r_n r + n /\ r_segs r' = r_segs r).
Proof.
  intros Hb Hr. eapply wpost_weaken; [apply read_n_fwd; exact Hb|]. intros [b s1] [Hb1 A]. cbn [fst snd] in *.
  split; [exact A|]. split; [exact Hb1|]. destruct A as (A1 & A2 & _).
  destruct (read_full_ok r n) as (r' & E & R & Nn & Sg); [rewrite <- Hr; exact A1|].
  exists r'. rewrite Hb1, Hr. split; [exact E|]. split; [rewrite A2, Hr, R; reflexivity|]. split; assumption.
Qed.

Lemma take_app_exact {A} k (a b : list A) : len a = k -> take k (a ++ b) = a.
Proof. intros <-. unfold take, len. rewrite Nat2N.id. rewrite firstn_app, Nat.sub_diag, firstn_all. cbn. apply app_nil_r. Qed.
Lemma drop_app_exact {A} k (a b : list A) : len a = k -> drop k (a ++ b) = b.
Proof. intros <-. unfold drop, len. rewrite Nat2N.id. rewrite skipn_app, Nat.sub_diag, skipn_all. reflexivity. Qed.
Lemma take_exact {A} k (a : list A) : len a = k -> take k a = a.
Proof. intros <-. unfold take, len. rewrite Nat2N.id. apply firstn_all. Qed.

Definition land15_ok (h : N) : bool := N.land h LocalMesgNumMask <? 16.
Lemma land15_sweep : forallb land15_ok (nrange 256 0) = true. Proof. vm_compute. reflexivity. Qed.
Lemma land15_lt h : h < 256 -> (N.to_nat (N.land h LocalMesgNumMask) < 16)%nat.
Proof. intros H. pose proof land15_sweep as Hs. rewrite forallb_forall in Hs. specialize (Hs h (in_nrange 256 0 h ltac:(lia))). apply N.ltb_lt in Hs. lia. Qed.
Definition localnum_ok (h : N) : bool := local_mesg_num h <? 16.
Lemma localnum_sweep : forallb localnum_ok (nrange 256 0) = true. Proof. vm_compute. reflexivity. Qed.
Lemma localnum_lt h : h < 256 -> (N.to_nat (local_mesg_num h) < 16)%nat.
Proof. intros H. pose proof localnum_sweep as Hs. rewrite forallb_forall in Hs. specialize (Hs h (in_nrange 256 0 h ltac:(lia))). apply N.ltb_lt in Hs. lia. Qed.

Lemma len_ge_cons {A} (l : list A) k : 1 + k <= len l -> exists x tl, l = x :: tl /\ k <= len tl.
Proof. destruct l as [|x tl]; unfold len; cbn [length]; intros H; [lia|]. exists x, tl. split; [reflexivity|lia]. Qed.
Lemma bytes_ok_inv x l : bytes_ok (x :: l) -> x < 256 /\ bytes_ok l.
Proof. intros H. inversion H; subst. split; assumption. Qed.

Lemma cur_step r pos k : pos <= r_n r -> wrap 32 (wrap 32 (r_n r - pos) + k) = wrap 32 (r_n r + k - pos).
Proof. intros H. rewrite wrap_add. f_equal. lia. Qed.

(* the bytes the decoded sequences account for: header + data size + CRC of every file header event *)
Definition covered (evs : list event) : N :=
  fold_right (fun e a => match e with EvHeader h => h_size h + h_datasize h + 2 + a | _ => a end) 0 evs.

(* one record: whenever the full decoder gets through it, the raw decoder does, consuming the same bytes *)
Lemma record_agree c s r pos lens : sim s r pos lens ->
  wpost (decode_message c s)
        (fun s' => exists r' lens', raw_record r lens = inl (r', lens') /\ sim s' r' pos lens' /\ s_header s' = s_header s
                                    /\ (length (r_rest r') < length (r_rest r))%nat /\ covered (s_events s') = covered (s_events s)).
Proof.
  intros [Hrest Hbuf Hpos Hcur Hit Hlens Hsmall Hok]. unfold decode_message.
  eapply wpost_bind; [apply (read_n_couple c s r 1 Hbuf Hrest)|].
  intros [b s1] (A1 & Hb1 & r1 & Er1 & R1 & N1 & S1). cbn [fst snd] in *. cbv beta iota zeta.
  pose proof A1 as (L1 & D1 & B1 & C1 & K1).
  destruct (len_ge_cons (s_rest s) 0 ltac:(lia)) as (h & tl & Es & _).
  assert (Hb : b = [h]) by (rewrite Hb1, Es; reflexivity). clear Hb1. subst b. cbn [byte_at nth_opt bind].
  assert (Hh : h < 256) by (rewrite Es in Hok; apply (bytes_ok_inv _ _ Hok)).
  assert (Hoktl : bytes_ok tl) by (rewrite Es in Hok; apply (bytes_ok_inv _ _ Hok)).
  assert (Rs1 : s_rest s1 = tl) by (rewrite D1, Es; reflexivity).
  assert (Hshrink : forall k (r' : rstate), r_rest r' = drop k tl -> (length (r_rest r') < length (r_rest r))%nat).
  { intros k r' E. rewrite E, <- Hrest, Es. unfold drop. rewrite skipn_length. cbn [length]. lia. }
  destruct (N.land h (N.lor MesgCompressedHeaderMask MesgDefinitionMask) =? MesgDefinitionMask) eqn:Edef.
  - (* definition *)
    unfold decode_definition.
    eapply wpost_bind; [apply (read_n_couple c s1 r1 5 B1 R1)|].
    intros [b2 s2] (A2 & Hb2 & r2 & Er2 & R2 & N2 & S2). cbn [fst snd] in *. cbv beta iota zeta.
    pose proof A2 as (L2 & D2 & B2 & C2 & K2). rewrite Rs1 in L2, D2, Hb2.
    destruct (len_ge_cons tl 4 ltac:(lia)) as (x0 & t0 & E0 & L20). destruct (len_ge_cons t0 3 ltac:(lia)) as (x1 & t1 & E1 & L21).
    destruct (len_ge_cons t1 2 ltac:(lia)) as (x2 & t2 & E2 & L22). destruct (len_ge_cons t2 1 ltac:(lia)) as (x3 & t3 & E3 & L23).
    destruct (len_ge_cons t3 0 ltac:(lia)) as (x4 & t4 & E4 & _).
    assert (Etl : tl = x0 :: x1 :: x2 :: x3 :: x4 :: t4) by (rewrite E0, E1, E2, E3, E4; reflexivity).
    assert (Hb2' : b2 = [x0; x1; x2; x3; x4]) by (rewrite Hb2, Etl; reflexivity). clear Hb2. subst b2.
    cbn [byte_at nth_opt bind slice length Nat.leb andb firstn skipn Nat.sub].
    assert (Rs2 : s_rest s2 = t4) by (rewrite D2, Etl; reflexivity).
    assert (Hx4 : x4 < 256).
    { rewrite Etl in Hoktl. repeat (apply bytes_ok_inv in Hoktl; destruct Hoktl as [? Hoktl]). assumption. }
    assert (Hokt4 : bytes_ok t4).
    { rewrite Etl in Hoktl. repeat (apply bytes_ok_inv in Hoktl; destruct Hoktl as [? Hoktl]). assumption. }
    eapply wpost_bind; [apply (read_n_couple c s2 r2 (x4 * 3) B2 R2)|].
    intros [b3 s3] (A3 & Hb3 & r3 & Er3 & R3 & N3 & S3). cbn [fst snd] in *. cbv beta iota zeta.
    pose proof A3 as (L3 & D3 & B3 & C3 & K3). rewrite Rs2 in L3, D3, Hb3.
    assert (Lb3 : len b3 = x4 * 3) by (rewrite Hb3; apply len_take'; exact L3).
    assert (Hokb3 : bytes_ok b3) by (rewrite Hb3; apply bytes_ok_take; exact Hokt4).
    unfold bind at 1. destruct (parse_fdefs (length b3) b3) as [fds| | |] eqn:Efds; try exact I.
    pose proof (parse_fdefs_small _ _ _ Hokb3 Efds) as Hfsmall.
    pose proof (parse_fdefs_sum (length b3) b3 fds ltac:(lia) Efds) as Hfsum.
    pose proof (parse_fdefs_len _ _ _ Efds) as Hflen.
    set (local := N.to_nat (N.land h LocalMesgNumMask)).
    assert (Hlocal : (local < 16)%nat) by (apply land15_lt; exact Hh).
    assert (A13 : adv (1 + 5 + x4 * 3) s s3) by (eapply adv_trans; [eapply adv_trans; [exact A1|exact A2]|exact A3]).
    unfold has at 1. fold (has h DevDataMask). destruct (has h DevDataMask) eqn:Edev.
    + (* with developer field definitions *)
      rewrite bind_assoc.
      eapply wpost_bind; [apply (read_n_couple c s3 r3 1 B3 R3)|].
      intros [b4 s4] (A4 & Hb4 & r4 & Er4 & R4 & N4 & S4). cbn [fst snd] in *. cbv beta iota zeta.
      pose proof A4 as (L4 & D4 & B4 & C4 & K4). rewrite D3 in L4, D4, Hb4.
      destruct (len_ge_cons (drop (x4 * 3) t4) 0 ltac:(lia)) as (m & t5 & E5 & _).
      assert (Hb4' : b4 = [m]) by (rewrite Hb4, E5; reflexivity). clear Hb4. subst b4. cbn [byte_at nth_opt bind].
      assert (Hokd : bytes_ok (m :: t5)) by (rewrite <- E5; apply bytes_ok_drop; exact Hokt4).
      destruct (bytes_ok_inv _ _ Hokd) as [Hm Hokt5].
      assert (Rs4 : s_rest s4 = t5) by (rewrite D4, E5; reflexivity).
      rewrite bind_assoc.
      eapply wpost_bind; [apply (read_n_couple c s4 r4 (m * 3) B4 R4)|].
      intros [b5 s5] (A5 & Hb5 & r5 & Er5 & R5 & N5 & S5). cbn [fst snd] in *. cbv beta iota zeta.
      pose proof A5 as (L5 & D5 & B5 & C5 & K5). rewrite Rs4 in L5, D5, Hb5.
      assert (Lb5 : len b5 = m * 3) by (rewrite Hb5; apply len_take'; exact L5).
      assert (Hokb5 : bytes_ok b5) by (rewrite Hb5; apply bytes_ok_take; exact Hokt5).
      set (dds := parse_ddefs (length b5) b5).
      pose proof (parse_ddefs_small (length b5) b5 Hokb5) as Hdsmall. fold dds in Hdsmall.
      pose proof (parse_ddefs_sum (length b5) b5 ltac:(lia)) as Hdsum. fold dds in Hdsum.
      pose proof (parse_ddefs_len (length b5) b5) as Hdlen. fold dds in Hdlen.
      set (d := mkmd h x0 x1 (dec (negb (x1 =? LittleEndian)) [x2; x3]) fds dds).
      assert (A15 : adv (1 + 5 + x4 * 3 + 1 + m * 3) s s5) by (eapply adv_trans; [eapply adv_trans; [exact A13|exact A4]|exact A5]).
      destruct A15 as (T1 & T2 & T3 & T4 & T5 & T6 & T7).
      cbn.
      (* the raw side *)
      unfold raw_record. rewrite Er1. cbv beta iota zeta. rewrite Edef. rewrite Er2. cbv beta iota zeta.
      change (nth 4 [x0; x1; x2; x3; x4] 0) with x4. rewrite Er3. cbv beta iota zeta.
      unfold has in Edev. rewrite Edev. rewrite Er4. cbv beta iota zeta. change (nth 0 [m] 0) with m. rewrite Er5. cbv beta iota zeta.
      eexists. eexists. split; [reflexivity|].
      assert (Hml : wrap 32 (1 + sizes_sum b3 + sizes_sum b5) = mesg_len d).
      { unfold mesg_len, d. cbn [md_fields md_devs]. rewrite Hfsum, Hdsum. apply wrap32_small.
        pose proof (sum_fd_bound _ Hfsmall). pose proof (sum_dd_bound _ Hdsmall). rewrite <- Hfsum, <- Hdsum. unfold len in *. lia. }
      rewrite Hml. fold local.
      split; [|split; [cbn; rewrite T6; reflexivity|split; [apply (Hshrink (5 + x4 * 3 + 1 + m * 3)); cbn [emit r_rest]; rewrite <- R5, D5, <- Rs4, D4, <- Rs2, D2, !drop_drop'; f_equal; lia|cbn; rewrite T7; reflexivity]]].
      constructor; cbn [s_rest s_buf s_cur s_events s_defs upd_defs push_event emit r_rest r_n r_segs].
      * exact R5.
      * exact T3.
      * lia.
      * rewrite T4, Hcur, N5, N4, N3, N2, N1. rewrite cur_step by exact Hpos. f_equal. lia.
      * unfold items_agree in *. cbn [map]. rewrite T7. rewrite S5, S4, S3, S2, S1. f_equal; [|exact Hit].
        cbn [ev_item seg_item]. unfold def_of_seg. cbn [app].
        rewrite (take_app_exact (x4 * 3) b3 _ Lb3), Efds. unfold has. rewrite Edev. rewrite (drop_app_exact (x4 * 3) b3 _ Lb3). cbn [app].
        rewrite (take_exact (m * 3) b5 Lb5). reflexivity.
      * rewrite T5. apply lens_rel_replace; assumption.
      * rewrite T5. apply defs_small_replace; assumption.
      * rewrite T2. apply bytes_ok_drop. exact Hok.
    + (* without *)
      cbn [bind].
      set (d := mkmd h x0 x1 (dec (negb (x1 =? LittleEndian)) [x2; x3]) fds []).
      destruct A13 as (T1 & T2 & T3 & T4 & T5 & T6 & T7).
      unfold raw_record. rewrite Er1. cbv beta iota zeta. rewrite Edef. rewrite Er2. cbv beta iota zeta.
      change (nth 4 [x0; x1; x2; x3; x4] 0) with x4. rewrite Er3. cbv beta iota zeta.
      unfold has in Edev. rewrite Edev.
      eexists. eexists. split; [reflexivity|].
      assert (Hml : wrap 32 (1 + sizes_sum b3) = mesg_len d).
      { unfold mesg_len, d. cbn [md_fields md_devs sum_dd fold_right]. rewrite Hfsum, N.add_0_r. apply wrap32_small.
        pose proof (sum_fd_bound _ Hfsmall). rewrite <- Hfsum. unfold len in *. lia. }
      rewrite Hml. fold local.
      split; [|split; [cbn; rewrite T6; reflexivity|split; [apply (Hshrink (5 + x4 * 3)); cbn [emit r_rest]; rewrite <- R3, D3, <- Rs2, D2, !drop_drop'; f_equal; lia|cbn; rewrite T7; reflexivity]]].
      constructor; cbn [s_rest s_buf s_cur s_events s_defs upd_defs push_event emit r_rest r_n r_segs].
      * exact R3.
      * exact T3.
      * lia.
      * rewrite T4, Hcur, N3, N2, N1. rewrite cur_step by exact Hpos. f_equal. lia.
      * unfold items_agree in *. cbn [map]. rewrite T7. rewrite S3, S2, S1. f_equal; [|exact Hit].
        cbn [ev_item seg_item]. unfold def_of_seg. cbn [app].
        rewrite (take_exact (x4 * 3) b3 Lb3), Efds. unfold has. rewrite Edev. reflexivity.
      * rewrite T5. apply lens_rel_replace; assumption.
      * rewrite T5. apply defs_small_replace; [assumption|assumption|constructor].
      * rewrite T2. apply bytes_ok_drop. exact Hok.
  - (* data *)
    destruct K1 as (K1d & K1h & K1e).
    eapply wpost_weaken; [apply (decode_data_fwd c s1 h B1); [rewrite C1; apply (wrap_lt 32)|exact Hh]|].
    intros s' (d & End & (P1 & P2 & P3 & P4 & P5 & P6 & m & Pm & P7)).
    set (K := sum_fd (md_fields d) + sum_dd (md_devs d)) in *.
    destruct Hlens as (Ll1 & Ll2 & Hl).
    pose proof (Hl _ (localnum_lt h Hh)) as Hln. rewrite <- K1d, End in Hln. unfold mesg_len in Hln.
    destruct (read_full_ok r1 K) as (r2 & Er2 & R2 & N2 & S2); [rewrite <- R1; exact P1|].
    unfold raw_record. rewrite Er1. cbv beta iota zeta. rewrite Edef, Hln.
    replace (1 + sum_fd (md_fields d) + sum_dd (md_devs d) =? 0) with false by (symmetry; apply N.eqb_neq; lia).
    replace (1 + sum_fd (md_fields d) + sum_dd (md_devs d) - 1) with K by (unfold K; lia). rewrite Er2. cbv beta iota zeta.
    eexists. eexists. split; [reflexivity|].
    split; [|split; [rewrite P6; exact K1h|split; [apply (Hshrink K); cbn [emit r_rest]; rewrite R2, <- R1, Rs1; reflexivity|rewrite P7, K1e; reflexivity]]].
    constructor; cbn [emit r_rest r_n r_segs].
    + rewrite P2, R2, R1. reflexivity.
    + exact P3.
    + lia.
    + rewrite P4, C1, Hcur, N2, N1. rewrite wrap_add, <- N.add_assoc, wrap_add. f_equal. lia.
    + unfold items_agree in *. rewrite P7, S2, S1, K1e. cbn [map]. f_equal; [|exact Hit]. cbn [ev_item seg_item]. rewrite Pm. reflexivity.
    + rewrite P5, K1d. split; [exact Ll1|]. split; [exact Ll2|exact Hl].
    + rewrite P5, K1d. exact Hsmall.
    + rewrite P2, Rs1. apply bytes_ok_drop. exact Hoktl.
Qed.

(* the records of one data region *)
Lemma records_agree c : forall fuel s r pos lens fr, sim s r pos lens -> (length (r_rest r) < fr)%nat ->
  wpost (decode_messages fuel c s)
        (fun s' => exists r' lens', raw_records fr r lens pos (h_datasize (s_header s)) = inl r' /\ sim s' r' pos lens'
                                    /\ s_header s' = s_header s /\ h_datasize (s_header s) <= s_cur s'
                                    /\ covered (s_events s') = covered (s_events s) /\ (length (r_rest r') <= length (r_rest r))%nat).
Proof.
  induction fuel as [|fuel IH]; intros s r pos lens fr Hsim Hfr.
  - cbn [decode_messages]. destruct (h_datasize (s_header s) <=? s_cur s) eqn:Ec; [|exact I]. cbn.
    exists r, lens. destruct fr; [lia|]. cbn [raw_records]. rewrite <- (sim_cur _ _ _ _ Hsim), Ec.
    split; [reflexivity|]. split; [exact Hsim|]. split; [reflexivity|]. split; [apply N.leb_le; exact Ec|]. split; [reflexivity|lia].
  - cbn [decode_messages]. destruct (h_datasize (s_header s) <=? s_cur s) eqn:Ec.
    + cbn. exists r, lens. destruct fr; [lia|]. cbn [raw_records]. rewrite <- (sim_cur _ _ _ _ Hsim), Ec.
      split; [reflexivity|]. split; [exact Hsim|]. split; [reflexivity|]. split; [apply N.leb_le; exact Ec|]. split; [reflexivity|lia].
    + eapply wpost_bind; [apply (record_agree c s r pos lens Hsim)|].
      intros s1 (r1 & lens1 & Er & Hsim1 & Hh1 & Hsh & Hcv1).
      destruct fr as [|fr]; [lia|].
      eapply wpost_weaken; [apply (IH s1 r1 pos lens1 fr Hsim1); lia|].
      intros s' (r' & lens' & Err & Hsim' & Hh' & Hc' & Hcv' & Hle'). exists r', lens'.
      cbn [raw_records]. rewrite <- (sim_cur _ _ _ _ Hsim), Ec, Er. rewrite Hh1 in Err, Hc', Hh'.
      split; [exact Err|]. split; [exact Hsim'|]. split; [exact Hh'|]. split; [exact Hc'|]. split; [rewrite Hcv'; exact Hcv1|lia].
Qed.

(* ---------------------------------------------------------------- file header, CRC *)
Lemma read_raw_couple c s r n : bufok s -> s_rest s = r_rest r ->
  wpost (read_raw c s n) (fun x => fst x = take n (s_rest s) /\ n <= len (s_rest s) /\ bufok (snd x) /\ s_cur (snd x) = s_cur s /\ keeps s (snd x) /\
     exists r', read_full r n = (fst x, None, r') /\ s_rest (snd x) = r_rest r' /\ r_n r' = r_n r + n /\ r_segs r' = r_segs r).
Proof.
  intros Hb Hr. eapply wpost_weaken; [apply read_raw_fwd; exact Hb|]. intros [b s1] (H1 & H2 & H3 & H4 & H5 & H6). cbn [fst snd] in *.
  split; [exact H1|]. split; [exact H2|]. split; [exact H4|]. split; [exact H5|]. split; [exact H6|].
  destruct (read_full_ok r n) as (r' & E & R & Nn & Sg); [rewrite <- Hr; exact H2|].
  exists r'. rewrite H1, Hr. split; [exact E|]. split; [rewrite H3, Hr, R; reflexivity|]. split; assumption.
Qed.
Lemma slice_fwd b lo hi : wpost (slice b lo hi) (fun x => x = firstn (hi - lo) (skipn lo b)).
Proof. unfold slice. destruct (Nat.leb lo hi && Nat.leb hi (length b))%bool; cbn; auto. Qed.
Lemma list_N_eqb_same : forall a b, list_N_eqb a b = list_N_eqb_raw a b.
Proof. induction a as [|x a IH]; intros [|y b]; cbn [Value.list_N_eqb list_N_eqb_raw]; try reflexivity; rewrite IH; reflexivity. Qed.

Definition header_facts (s : dstate) (r : rstate) (s' : dstate) : Prop :=
  exists hs hr r1 r2, read_full r 1 = ([hs], None, r1) /\ (hs = 12 \/ hs = 14) /\ read_full r1 (hs - 1) = (hr, None, r2)
    /\ list_N_eqb_raw (take 4 (drop 8 (hs :: hr))) DataTypeFIT = true
    /\ h_datasize (s_header s') = le_word (take 4 (drop 4 (hs :: hr))) /\ h_size (s_header s') = hs
    /\ s_events s' = EvHeader (s_header s') :: s_events s /\ s_rest s' = r_rest r2 /\ bufok s' /\ s_cur s' = s_cur s /\ s_defs s' = s_defs s
    /\ r_n r2 = r_n r + hs /\ r_segs r2 = r_segs r /\ s_rest s' = drop hs (s_rest s) /\ hs <= len (s_rest s).

Lemma header_agree c s r : s_rest s = r_rest r -> bufok s -> wpost (decode_file_header c s) (header_facts s r).
Proof.
  intros Hrest Hbuf. unfold decode_file_header.
  eapply wpost_bind; [apply (read_raw_couple c s r 1 Hbuf Hrest)|].
  intros [b s1] (Hb1 & L1 & B1 & C1 & K1 & r1 & Er1 & R1 & N1 & S1). cbn [fst snd] in *. cbv beta iota zeta.
  destruct (len_ge_cons (s_rest s) 0 ltac:(lia)) as (hs & tl & Es & _).
  assert (Hb : b = [hs]) by (rewrite Hb1, Es; reflexivity). clear Hb1. subst b. cbn [byte_at nth_opt bind].
  destruct (negb ((hs =? 12) || (hs =? 14))) eqn:Esz; [exact I|].
  assert (Hhs : hs = 12 \/ hs = 14) by lia.
  set (s1c := upd_crc s1 (write (s_crc s1) [hs])).
  assert (R1c : s_rest s1c = r_rest r1) by exact R1.
  assert (Rs1 : s_rest s1 = tl).
  { destruct (read_full_take _ _ _ _ Er1) as (_ & Rr & _). rewrite R1, Rr, <- Hrest, Es. reflexivity. }
  eapply wpost_bind; [apply (read_raw_couple c s1c r1 (hs - 1) B1 R1c)|].
  intros [b2 s2] (Hb2 & L2 & B2 & C2 & K2 & r2 & Er2 & R2 & N2 & S2). cbn [fst snd] in *. cbv beta iota zeta.
  eapply wpost_bind; [apply slice_fwd|]. intros dt Hdt. cbv beta.
  destruct (negb (list_N_eqb dt DataTypeFIT)) eqn:Etag; [exact I|].
  eapply wpost_bind; [apply wpost_any|]. intros b0 _.
  eapply wpost_bind; [apply wpost_any|]. intros pv _.
  eapply wpost_bind; [apply slice_fwd|]. intros ds Hds. cbv beta zeta.
  destruct (le_word ds =? 0) eqn:Ez; [exact I|].
  eapply wpost_bind; [apply wpost_any|]. intros hcrc _. cbv beta zeta.
  set (h := mkfh hs b0 (le_word pv) (le_word ds) hcrc).
  assert (Hfin : header_facts s r (upd_crc (push_event (upd_header s2 h) (EvHeader h)) 0)).
  { exists hs, b2, r1, r2. split; [exact Er1|]. split; [exact Hhs|]. split; [exact Er2|].
    destruct K1 as (K1d & K1h & K1e). destruct K2 as (K2d & K2h & K2e).
    split. { rewrite <- list_N_eqb_same. apply negb_false_iff in Etag. rewrite Hdt in Etag. exact Etag. }
    split. { cbn. rewrite Hds. reflexivity. }
    split; [reflexivity|]. split; [cbn; rewrite K2e; cbn; rewrite K1e; reflexivity|]. split; [exact R2|]. split; [exact B2|].
    split; [cbn; rewrite C2; cbn; exact C1|]. split; [cbn; rewrite K2d; cbn; exact K1d|]. split; [rewrite N2, N1; lia|].
    split; [rewrite S2; exact S1|].
    destruct (read_full_take _ _ _ _ Er2) as (_ & Rr2 & Lr2 & _).
    split; [cbn [upd_crc upd_read push_event upd_header s_rest]; rewrite R2, Rr2, <- R1, Rs1, Es; replace hs with (1 + (hs - 1)) at 2 by lia; rewrite <- drop_drop'; reflexivity|].
    rewrite Es. rewrite <- R1, Rs1 in Lr2. unfold len in *. cbn [length]. lia. }
  destruct ((hcrc =? 0) || negb (c_checksum c)); [exact Hfin|].
  destruct (negb (_ =? hcrc)); [exact I|exact Hfin].
Qed.

(* ---------------------------------------------------------------- one sequence *)
Record bsim (s : dstate) (r : rstate) : Prop := mkbsim {
  b_rest : s_rest s = r_rest r;
  b_buf : bufok s;
  b_cur : s_cur s = 0;
  b_items : items_agree (s_events s) (r_segs r);
  b_defs : s_defs s = no_defs;
  b_ok : bytes_ok (s_rest s);
  b_cov : covered (s_events s) <= r_n r }.

Lemma defs_small_init : defs_small no_defs.
Proof. unfold defs_small, no_defs. apply Forall_forall. intros x Hx. apply repeat_spec in Hx. subst x. exact I. Qed.

Lemma sequence_agree c s r seq : bsim s r ->
  wpost (decode_one c s) (fun x => exists r', raw_sequence r seq = inl r' /\ bsim (snd x) r' /\ (length (r_rest r') < length (r_rest r))%nat).
Proof.
  intros [Hrest Hbuf Hcur Hit Hdefs Hok Hcov]. unfold decode_one.
  eapply wpost_bind; [apply (header_agree c s r Hrest Hbuf)|].
  intros s1 (hs & hr & r1 & r2 & Er1 & Hhs & Er2 & Etag & Hds & Hsz & Hev & R2 & B2 & C2 & D2 & N2 & S2 & Hdrop & Hlen).
  set (r2e := emit r2 RFHeader (hs :: hr)).
  assert (Hsim1 : sim s1 r2e (r_n r2e) (repeat 0 16)).
  { constructor; cbn [r2e emit r_rest r_n r_segs].
    - exact R2.
    - exact B2.
    - lia.
    - rewrite C2, Hcur, N.sub_diag. reflexivity.
    - unfold items_agree in *. rewrite Hev, S2. cbn [map]. f_equal; [|exact Hit]. cbn [ev_item seg_item nth]. rewrite Hsz, Hds. reflexivity.
    - rewrite D2, Hdefs. apply lens_rel_init.
    - rewrite D2, Hdefs. apply defs_small_init.
    - rewrite Hdrop. apply bytes_ok_drop. exact Hok. }
  eapply wpost_bind; [apply (records_agree c (S (length (s_rest s1))) s1 r2e (r_n r2e) (repeat 0 16) (S (length (r_rest r2e))) Hsim1); lia|].
  intros s2 (r3 & lens' & Err & Hsim2 & Hh2 & Hc2 & Hcv2 & Hle2).
  destruct Hsim2 as [Q1 Q2 Q3 Q4 Q5 Q6 Q7 Q8].
  unfold decode_crc. rewrite bind_assoc.
  eapply wpost_bind; [apply (read_raw_couple c s2 r3 2 Q2 Q1)|].
  intros [b s3] (Hb3 & L3 & B3 & C3 & K3 & r4 & Er4 & R4 & N4 & S4). cbn [fst snd] in *. cbv beta iota zeta.
  destruct (c_checksum c && negb (s_crc s3 =? le_word b)); [exact I|]. cbn [bind]. cbn [wpost snd].
  destruct K3 as (K3d & K3h & K3e).
  (* the raw side *)
  unfold raw_sequence. rewrite Er1. cbv beta iota zeta.
  replace (negb ((hs =? 12) || (hs =? 14))) with false by (destruct Hhs; subst hs; reflexivity).
  rewrite Er2. cbv beta iota zeta. rewrite Etag. cbn [negb]. fold r2e. rewrite <- Hds. rewrite Err. rewrite Er4. cbv beta iota zeta.
  eexists. split; [reflexivity|].
  destruct (read_full_take _ _ _ _ Er4) as (_ & Rr4 & Lr4 & _).
  split.
  - constructor; cbn [reset_seq push_event upd_crc upd_read s_rest s_buf s_cur s_events s_defs emit r_rest r_n r_segs].
    + exact R4.
    + exact B3.
    + reflexivity.
    + unfold items_agree in *. cbn [map]. rewrite K3e, S4. cbn [ev_item seg_item]. rewrite Q5. reflexivity.
    + reflexivity.
    + rewrite R4, Rr4, <- Q1. apply bytes_ok_drop. exact Q8.
    + cbn [covered fold_right]. fold (covered (s_events s3)). rewrite K3e, Hcv2, Hev. cbn [covered fold_right]. fold (covered (s_events s)).
      rewrite Hsz. rewrite Q4 in Hc2. pose proof (RawSafety.wrap_le 32 (r_n r3 - r_n r2e)) as Hw.
      cbn [r2e emit r_n] in *. lia.
  - cbn [emit r_rest]. rewrite Rr4. unfold drop. rewrite skipn_length.
    cbn [r2e emit r_rest] in Hle2. destruct (read_full_take _ _ _ _ Er2) as (_ & Rr2 & Lr2 & _). destruct (read_full_take _ _ _ _ Er1) as (_ & Rr1 & Lr1 & _).
    rewrite Rr2, Rr1 in Hle2. unfold drop in Hle2. rewrite !skipn_length in Hle2. unfold len in Lr1. lia.
Qed.

(* ---------------------------------------------------------------- the whole stream *)
Lemma covered_app a b : covered (a ++ b) = covered a + covered b.
Proof. induction a as [|e a IH]; cbn [app covered fold_right]; [reflexivity|]. fold (covered (a ++ b)) (covered a). rewrite IH. destruct e; lia. Qed.
Lemma covered_rev l : covered (rev l) = covered l.
Proof. induction l as [|e l IH]; [reflexivity|]. cbn [rev]. rewrite covered_app, IH. cbn [covered fold_right]. fold (covered l). destruct e; lia. Qed.

Lemma consumed_total bs r : RawProofs.consumed bs r [] -> r_n r + len (r_rest r) = len bs.
Proof. intros [H1 H2]. rewrite H1. cbn [app] in *. rewrite RawProofs.len_app'. rewrite app_nil_r in H2. lia. Qed.

Lemma all_agree c bs : forall fuel s r out fr seq fits evs,
  bsim s r -> RawProofs.consumed bs r [] -> (length (r_rest r) < fr)%nat -> (seq = 0 <-> out = []) ->
  decode_all fuel c s out = (Ok fits, evs) -> len bs <= covered evs ->
  exists segs n, raw_loop fr r seq = (segs, n, None) /\ items_agree evs segs.
Proof.
  induction fuel as [|fuel IH]; intros s r out fr seq fits evs Hb Hcons Hfr Hseq; cbn [decode_all]; [discriminate|].
  intros Hdec Hcov.
  assert (Hend : forall e0 o0, out = e0 :: o0 -> s_rest s = [] -> (Ok (rev out), rev (s_events s)) = (Ok fits, evs) ->
                 exists segs n, raw_loop fr r seq = (segs, n, None) /\ items_agree evs segs).
  { intros e0 o0 Eo Er H. injection H as _ <-. destruct fr as [|fr]; [lia|]. cbn [raw_loop]. unfold raw_sequence.
    assert (Hrf : read_full r 1 = ([], Some E_EOF, r)).
    { unfold read_full. change (1 =? 0) with false. cbv iota. rewrite <- (b_rest _ _ Hb), Er. reflexivity. }
    rewrite Hrf. cbv beta iota zeta.
    assert (Hs0 : (seq =? 0) = false) by (apply N.eqb_neq; intros Hz; apply Hseq in Hz; subst out; discriminate).
    rewrite Hs0. change (E_EOF =? E_EOF) with true. cbn [negb andb]. unfold finish. eexists. eexists. split; [reflexivity|].
    unfold items_agree. rewrite !map_rev. f_equal. exact (b_items _ _ Hb). }
  assert (Hstep : match decode_one c s with
                  | Ok (ft, s') => decode_all fuel c s' (ft :: out)
                  | Err e => match out, decode_file_header c s with
                             | _ :: _, Err e' => if e' =? E_EOF then (Ok (rev out), rev (s_events s)) else (Err e, rev (s_events s))
                             | _, _ => (Err e, rev (s_events s)) end
                  | Panic p => (Panic p, rev (s_events s))
                  | OutOfFuel => (OutOfFuel, rev (s_events s)) end = (Ok fits, evs) -> (out <> [] -> s_rest s <> []) ->
                 exists segs n, raw_loop fr r seq = (segs, n, None) /\ items_agree evs segs).
  { intros H Hne. pose proof (sequence_agree c s r seq Hb) as Hsa.
    destruct (decode_one c s) as [[ft s']|e|p|] eqn:Ed; try discriminate.
    - cbn in Hsa. destruct Hsa as (r' & Ers & Hb' & Hsh). destruct fr as [|fr]; [lia|]. cbn [raw_loop]. rewrite Ers.
      pose proof (RawProofs.raw_sequence_ok bs r seq Hcons) as Hc'. rewrite Ers in Hc'.
      apply (IH s' r' (ft :: out) fr (seq + 1) fits evs Hb' Hc'); [lia|split; [lia|discriminate]|exact H|exact Hcov].
    - destruct out as [|o0 out']; [discriminate|]. destruct (decode_file_header c s) as [?|e'|?|]; try discriminate.
      destruct (e' =? E_EOF); [|discriminate]. injection H as _ <-. exfalso.
      rewrite covered_rev in Hcov. pose proof (b_cov _ _ Hb) as Hc1. pose proof (consumed_total _ _ Hcons) as Ht.
      assert (0 < len (r_rest r)). { rewrite <- (b_rest _ _ Hb). destruct (s_rest s); [exfalso; apply Hne; [discriminate|reflexivity]|unfold len; cbn [length]; lia]. }
      lia. }
  destruct (s_rest s) as [|x rest] eqn:Er.
  - destruct out as [|o0 out'] eqn:Eo.
    + apply Hstep; [exact Hdec|]. intros Hn. exfalso. apply Hn. reflexivity.
    + eapply Hend; [reflexivity|reflexivity|exact Hdec].
  - apply Hstep; [|intros _; discriminate]. destruct out; exact Hdec.
Qed.

Theorem decoder_raw_agree c bs fits evs : bytes_ok bs ->
  decode_all (S (length bs)) c (init_state bs) [] = (Ok fits, evs) -> len bs <= covered evs ->
  exists segs n, raw_decode bs = (segs, n, None) /\ items_agree evs segs.
Proof.
  intros Hok Hdec Hcov. unfold raw_decode.
  apply (all_agree c bs (S (length bs)) (init_state bs) (mkr bs 0 []) [] (S (length bs)) 0 fits evs); try assumption.
  - constructor; cbn; try reflexivity; try assumption; unfold bufok; cbn; lia.
  - split; reflexivity.
  - cbn. lia.
  - split; reflexivity.
Qed.

(* both report the same number of sequences: one header item per sequence on either side *)
Definition is_header_item (i : option item) : bool := match i with Some (IHeader _ _) => true | _ => false end.
Lemma same_sequence_count evs segs : items_agree evs segs ->
  length (filter (fun e => match e with EvHeader _ => true | _ => false end) evs) = length (filter (fun sg => match fst sg with RFHeader => true | _ => false end) segs).
Proof.
  unfold items_agree. revert segs. induction evs as [|e evs IH]; intros [|sg segs] H; cbn [map] in H; try discriminate; [reflexivity|].
  injection H as H1 H2. cbn [filter]. specialize (IH _ H2).
  destruct e, sg as [[] b]; cbn [ev_item seg_item fst] in *; try discriminate; cbn [length]; try (f_equal; exact IH); try exact IH.
  all: try (destruct (def_of_seg b); discriminate). all: destruct b; try discriminate; exact IH.
Qed.
