(* What the encoder model writes is accepted by the integrity rules (Model/Wire.v), for 14-byte headers: ties C02 (shape of the
   output), C04 (rules) and C11 (only a completed sequence is accepted).  Together with truncation_rejected: every proper
   prefix of one encoded sequence is rejected. *)
From Coq Require Import NArith ZArith List Lia Bool ZifyN ZifyNat ZifyBool.
Import ListNotations.
From Fit Require Import Model.Encoder Model.Wire Proofs.CrcProofs Proofs.EncoderProofs Proofs.IntegrityProofs Proofs.ValueProofs.
Open Scope N_scope.

Lemma take_all_app {A} n (a b : list A) : n = len a -> take n (a ++ b) = a.
Proof. intros ->. unfold take, len. rewrite Nat2N.id, firstn_app, Nat.sub_diag, firstn_all. cbn. apply app_nil_r. Qed.
Lemma drop_all_app {A} n (a b : list A) : n = len a -> drop n (a ++ b) = b.
Proof. intros ->. unfold drop, len. rewrite Nat2N.id, skipn_app, Nat.sub_diag, skipn_all. reflexivity. Qed.

Lemma le16_le_bytes v : v < 65536 -> le16 (le_bytes 2 v) = v.
Proof. intros H. cbn [le_bytes le16]. lia. Qed.

Lemma bytes_ok_app a b : bytes_ok (a ++ b) <-> bytes_ok a /\ bytes_ok b.
Proof. unfold bytes_ok. apply Forall_app. Qed.

#[local] Opaque write.
Theorem sequence_accepted (h12 records : bytes) :
  length h12 = 12%nat -> nth_opt h12 0 = Some 14 -> take 4 (drop 8 h12) = fit_tag ->
  le32 (take 4 (drop 4 h12)) = len records -> records <> [] -> bytes_ok h12 -> bytes_ok records ->
  integrity_sequence ((h12 ++ le_bytes 2 (write 0 h12)) ++ records ++ le_bytes 2 (write 0 records)) = Some [].
Proof.
  intros Hl H0 Htag Hds Hne Hok Hrok.
  set (hc := le_bytes 2 (write 0 h12)). set (fc := le_bytes 2 (write 0 records)).
  assert (Lh : len (h12 ++ hc) = 14) by (unfold len, hc; rewrite app_length, le_bytes_length, Hl; reflexivity).
  assert (Lf : len fc = 2) by (unfold len, fc; rewrite le_bytes_length; reflexivity).
  assert (Lr : len records <> 0) by (unfold len; destruct records; [congruence|cbn; lia]).
  assert (Bh : write 0 h12 < 65536) by (apply (C18_state_bounded h12 Hok)).
  assert (Br : write 0 records < 65536) by (apply (C18_state_bounded records Hrok)).
  assert (Lall : len ((h12 ++ hc) ++ records ++ fc) = 14 + len records + 2) by (rewrite (len_app (h12 ++ hc)), (len_app records), Lh, Lf; lia).
  unfold integrity_sequence, integrity_sequence_gen.
  destruct h12 as [|b0 t12]; [discriminate|]. cbn [nth_opt] in H0. injection H0 as ->.
  cbn [app]. change (14 :: (t12 ++ hc) ++ records ++ fc) with (((14 :: t12) ++ hc) ++ records ++ fc).
  set (h12 := 14 :: t12) in *. set (bs := (h12 ++ hc) ++ records ++ fc) in *.
  change (negb ((14 =? 12) || (14 =? 14))) with false. cbv iota.
  replace (len bs <? 14) with false by (symmetry; apply N.ltb_ge; lia).
  assert (T14 : take 14 bs = h12 ++ hc) by (unfold bs; apply take_all_app; symmetry; exact Lh).
  rewrite T14.
  assert (T12 : take 12 (h12 ++ hc) = h12) by (apply take_all_app; unfold len; rewrite Hl; reflexivity).
  assert (D12 : drop 12 (h12 ++ hc) = hc) by (apply drop_all_app; unfold len; rewrite Hl; reflexivity).
  assert (D8 : take 4 (drop 8 (h12 ++ hc)) = take 4 (drop 8 h12)).
  { rewrite drop_app_prefix by (unfold len; rewrite Hl; lia). apply take_app_prefix. unfold len, drop. rewrite skipn_length, Hl. change (N.to_nat 8) with 8%nat. lia. }
  assert (D4 : take 4 (drop 4 (h12 ++ hc)) = take 4 (drop 4 h12)).
  { rewrite drop_app_prefix by (unfold len; rewrite Hl; lia). apply take_app_prefix. unfold len, drop. rewrite skipn_length, Hl. change (N.to_nat 4) with 4%nat. lia. }
  rewrite D8, Htag. change (negb (beq fit_tag fit_tag)) with false. cbv iota.
  rewrite D4, Hds. replace (len records =? 0) with false by (symmetry; apply N.eqb_neq; exact Lr).
  change (14 =? 14) with true. cbv iota. cbn [andb orb].
  rewrite D12, T12. unfold hc at 1 2. rewrite (le16_le_bytes _ Bh). unfold crc_of. rewrite N.eqb_refl. cbn [negb]. rewrite andb_false_r.
  replace (len bs <? 14 + len records + 2) with false by (symmetry; apply N.ltb_ge; lia).
  assert (Tall : take (14 + len records) bs = (h12 ++ hc) ++ records).
  { unfold bs. rewrite app_assoc. apply take_all_app. rewrite len_app, Lh. reflexivity. }
  assert (Dall : drop (14 + len records) bs = fc).
  { unfold bs. rewrite app_assoc. apply drop_all_app. rewrite len_app, Lh. reflexivity. }
  rewrite Tall, Dall.
  replace (take 2 fc) with fc by (symmetry; rewrite <- (app_nil_r fc) at 1; apply take_all_app; symmetry; exact Lf).
  unfold fc at 1. rewrite (le16_le_bytes _ Br).
  unfold hc. rewrite (crc_header14_transparent h12 records Hok). rewrite N.eqb_refl.
  f_equal. unfold drop. apply skipn_all2. clear -Lall. unfold len in *. lia.
Qed.

(* ---- the encoder model's own output *)
Lemma wrap_small w x : x < 2 ^ w -> wrap w x = x.
Proof. intros H. unfold wrap. apply N.mod_small. exact H. Qed.
Lemma wrap_lt w x : wrap w x < 2 ^ w.
Proof. unfold wrap. apply N.mod_lt. apply N.pow_nonzero. discriminate. Qed.

Lemma encode_messages_ds_bounded c : forall ms st acc out st', es_datasize st < 2 ^ 32 ->
  encode_messages c st ms acc = Ok (out, st') -> es_datasize st' < 2 ^ 32.
Proof.
  induction ms as [|m ms IH]; intros st acc out st' Hb H; cbn [encode_messages] in H.
  - injection H as _ <-. exact Hb.
  - unfold bind in H. destruct (encode_message c st m) as [[b st1]| | |] eqn:E; try discriminate.
    destruct (encode_message_acc _ _ _ _ _ E) as [Hd _]. eapply IH; [|exact H]. rewrite Hd. apply wrap_lt.
Qed.

Lemma le32_le_bytes v : v < 2 ^ 32 -> le32 (le_bytes 4 v) = v.
Proof. intros H. change (2 ^ 32) with 4294967296 in H. cbn [le_bytes le32]. lia. Qed.

#[local] Opaque le_bytes.
Theorem encode_fit_accepted c f r : encode_fit c f = Ok r -> (ef_hsize f =? 12) = false ->
  bytes_ok (er_bytes r) -> 16 < len (er_bytes r) < 2 ^ 32 -> integrity_sequence (er_bytes r) = Some [].
Proof.
  unfold encode_fit. destruct (ef_msgs f) as [|m0 ms0] eqn:Em; [discriminate|].
  unfold bind. destruct (proto_validate_all _ _); try discriminate.
  destruct (validate_all _ _ _ _) as [vms| | |]; try discriminate.
  destruct (encode_messages _ _ _ _) as [[records st]| | |] eqn:E; try discriminate.
  intros H E12. injection H as <-. cbn [er_bytes]. rewrite E12. change (14 =? 14) with true. cbv iota.
  destruct (encode_messages_acc _ _ _ _ _ _ E) as (x & Hx & Hs & Hc). cbn [app] in Hx. subst x.
  cbn [es_init es_datasize es_crc] in Hs, Hc. rewrite N.add_0_l in Hs.
  assert (Hb : es_datasize st < 2 ^ 32) by (eapply encode_messages_ds_bounded; [|exact E]; cbn; lia).
  unfold marshal_header. change (14 <=? 12) with false. cbv iota. cbn [app].
  set (pv := if ef_profile f =? 0 then profile_Version else ef_profile f).
  set (ver := select_version c (ef_proto f)).
  set (h12 := 14 :: ver :: le_bytes 2 pv ++ le_bytes 4 (es_datasize st) ++ DataTypeFIT ++ []).
  set (E0 := (h12 ++ le_bytes 2 (write 0 h12)) ++ records ++ le_bytes 2 (es_crc st)).
  change (bytes_ok E0 -> 16 < len E0 < 2 ^ 32 -> integrity_sequence E0 = Some []). unfold E0. clear E0.
  intros Hok [Hlo Hhi].
  assert (Lh : length h12 = 12%nat) by (unfold h12; cbn [length]; rewrite !app_length, !le_bytes_length; reflexivity).
  assert (Lrec : len records + 16 = len ((h12 ++ le_bytes 2 (write 0 h12)) ++ records ++ le_bytes 2 (es_crc st))).
  { rewrite (len_app (h12 ++ _)), (len_app records), (len_app h12). unfold len. rewrite !le_bytes_length, Lh. lia. }
  assert (Hds : es_datasize st = len records).
  { rewrite <- (wrap_small 32 (es_datasize st) Hb), Hs. apply wrap_small. change (2 ^ 32) with 4294967296 in *. lia. }
  rewrite Hc. apply sequence_accepted.
  - exact Lh.
  - reflexivity.
  - unfold h12. destruct (le_bytes 2 pv) as [|p0 [|p1 [|? ?]]] eqn:E2;
      try (apply (f_equal (@length N)) in E2; rewrite le_bytes_length in E2; cbn in E2; lia).
    destruct (le_bytes 4 (es_datasize st)) as [|a4 [|b4 [|c4 [|d4 [|? ?]]]]] eqn:E4;
      try (apply (f_equal (@length N)) in E4; rewrite le_bytes_length in E4; cbn in E4; lia).
    reflexivity.
  - unfold h12. destruct (le_bytes 2 pv) as [|p0 [|p1 [|? ?]]] eqn:E2;
      try (apply (f_equal (@length N)) in E2; rewrite le_bytes_length in E2; cbn in E2; lia).
    cbn [app]. unfold drop, take. change (N.to_nat 4) with 4%nat. cbn [skipn].
    assert (L4 : length (le_bytes 4 (es_datasize st)) = 4%nat) by apply le_bytes_length.
    rewrite firstn_app, L4, Nat.sub_diag, <- L4, firstn_all. cbn [firstn]. rewrite app_nil_r.
    rewrite le32_le_bytes by exact Hb. exact Hds.
  - intros ->. change (len (@nil N)) with 0 in Lrec. lia.
  - rewrite Hc in Hok. apply bytes_ok_app in Hok. destruct Hok as [Hok _]. apply bytes_ok_app in Hok. apply Hok.
  - rewrite Hc in Hok. apply bytes_ok_app in Hok. destruct Hok as [_ Hok]. apply bytes_ok_app in Hok. apply Hok.
Qed.

(* every proper prefix of an encoded sequence is rejected: what a crash leaves of a sequence whose header is final *)
Corollary encode_fit_prefix_rejected c f r k : encode_fit c f = Ok r -> (ef_hsize f =? 12) = false ->
  bytes_ok (er_bytes r) -> 16 < len (er_bytes r) < 2 ^ 32 -> (k < length (er_bytes r))%nat ->
  integrity_sequence (firstn k (er_bytes r)) = None.
Proof. intros H E12 Hok Hlen Hk. apply truncation_rejected; [eapply encode_fit_accepted; eassumption|exact Hk]. Qed.
