(* Proofs/ScaleProofs.v -- unbounded theorems about Model/Scale.v: unscaled values, FIT timestamps,
   semicircles.  (The 32-bit scaled theorem is in Proofs/ScaledRoundtrip32.v, the 8/16-bit sweeps in Inst/.) *)
From Coq Require Import ZArith NArith Reals Floats Lia Lra Bool.
From Flocq Require Import Core.Core IEEE754.BinarySingleNaN IEEE754.PrimFloat.
From Fit Require Import Model.Float Model.Profile Model.Scale Proofs.FloatProofs.
Open Scope R_scope.
#[local] Existing Instance Hprec.
#[local] Existing Instance Hmax.

(* ------------------------------------------------------------------ scale 1, offset 0 *)
Lemma in_range_abs (bt : N) (x : Z) : (bt_bits bt <= 53)%Z -> in_range bt x -> (Z.abs x < 2 ^ 53)%Z.
Proof.
  unfold in_range, in_int_range. intros Hb H.
  assert (H1 : (2 ^ bt_bits bt <= 2 ^ 53)%Z) by (apply Z.pow_le_mono_r; lia).
  destruct (bt_signed bt).
  - assert (H2 : (2 ^ (bt_bits bt - 1) <= 2 ^ 53)%Z) by (apply Z.pow_le_mono_r; lia).
    assert (H3 : (2 ^ (bt_bits bt - 1) < 2 ^ 53)%Z).
    { destruct (Z_le_gt_dec (bt_bits bt) 0) as [Hz|Hz].
      - rewrite Z.pow_neg_r by lia. lia.
      - apply Z.pow_lt_mono_r; lia. }
    lia.
  - lia.
Qed.

Theorem exact_when_unscaled (m mu : conv_mode) (bt : N) (x : Z) :
  (0 < bt_bits bt)%Z -> in_range bt x -> (Z.abs x < 2 ^ 53)%Z ->
  rt_helper m bt 1 0 x = x /\ rt_slice mu m bt 1 0 x = x.
Proof.
  intros Hb Hr Hx. unfold rt_helper, rt_slice, discard_value, discard_slice, discard.
  change (is_unscaled 1 0) with true. cbv iota. unfold to_int.
  rewrite !(to_Z_of_int _ _ x) by (apply apply_unscaled_exact; exact Hx).
  split; apply wrap_int_id; assumption.
Qed.

(* ------------------------------------------------------------------ timestamps *)
Theorem time_roundtrip (v : Z) : (0 <= v < 2 ^ 32)%Z -> to_uint32 (to_time v) = v.
Proof.
  intros Hv. unfold to_time. destruct (Z.eqb_spec v uint32_invalid) as [->|Hne].
  - reflexivity.
  - unfold to_uint32, uint32_invalid in *.
    destruct (Z.ltb_spec (v * 1000000000) 0) as [Hneg|_]; [lia|].
    assert (Hs : sat_int64 (v * 1000000000) = (v * 1000000000)%Z).
    { unfold sat_int64. change (2 ^ 63)%Z with 9223372036854775808%Z. change (2 ^ 32)%Z with 4294967296%Z in Hv. lia. }
    rewrite Hs. unfold duration_seconds.
    rewrite Z.quot_mul, Z.rem_mul by lia.
    change (of_Z 0 / 1000000000)%float with 0%float.
    assert (Hx : (Z.abs v < 2 ^ 53)%Z) by (change (2 ^ 32)%Z with 4294967296%Z in Hv; change (2 ^ 53)%Z with 9007199254740992%Z; lia).
    destruct (of_Z_exact v Hx) as [HX FX].
    assert (F0 : is_finite (Prim2B 0%float) = true) by reflexivity.
    pose proof (Bplus_correct prec emax Hprec Hmax mode_NE _ _ FX F0) as Hp.
    assert (H0 : B2R (Prim2B 0%float) = 0) by (vm_compute; reflexivity).
    rewrite HX, H0, Rplus_0_r in Hp. rewrite rnd_int in Hp by exact Hx.
    rewrite Rlt_bool_true in Hp by (apply int_bound; exact Hx).
    destruct Hp as (HpR & _). rewrite <- add_equiv in HpR.
    rewrite (trunc_of_int _ v HpR). apply wrap_int_id; [lia|]. unfold in_int_range. lia.
Qed.

(* ------------------------------------------------------------------ semicircles *)
Lemma cf_exact : B2R (Prim2B semi_cf) = F2R (Float radix2 45 (-29)) /\ is_finite (Prim2B semi_cf) = true.
Proof. split; [|reflexivity]. vm_compute. lra. Qed.

Lemma semi_quotient (x : Z) : (- 2 ^ 31 <= x < 2 ^ 31)%Z ->
  B2R (Prim2B (of_Z x * semi_cf / semi_cf)%float) = IZR x /\ is_finite (Prim2B (of_Z x * semi_cf / semi_cf)%float) = true.
Proof.
  intros Hx.
  destruct (of_Z_exact x ltac:(lia)) as [Hfx Ffx]. destruct cf_exact as [Hc Fc].
  pose proof (Bmult_correct prec emax Hprec Hmax mode_NE (Prim2B (of_Z x)) (Prim2B semi_cf)) as Hm.
  rewrite Hfx, Hc in Hm.
  assert (Hprod : IZR x * F2R (Float radix2 45 (-29)) = F2R (Float radix2 (x * 45) (-29))).
  { unfold F2R; cbn [Fnum Fexp]. rewrite mult_IZR. ring. }
  rewrite Hprod, (rnd_exact (x * 45) (-29)) in Hm by lia.
  rewrite Rlt_bool_true in Hm by (apply F2R_bound; lia).
  destruct Hm as (HmR & HmF & _). rewrite Ffx, Fc in HmF. cbn [andb] in HmF.
  rewrite <- mul_equiv in HmR, HmF.
  pose proof (Bdiv_correct prec emax Hprec Hmax mode_NE (Prim2B (PrimFloat.mul (of_Z x) semi_cf)) (Prim2B semi_cf)) as Hd.
  assert (Hcnz : B2R (Prim2B semi_cf) <> 0).
  { rewrite Hc. unfold F2R; cbn [Fnum Fexp]. apply Rmult_integral_contrapositive_currified; [lra|]. apply Rgt_not_eq, bpow_gt_0. }
  specialize (Hd Hcnz). rewrite HmR, Hc in Hd.
  assert (Hquot : F2R (Float radix2 (x * 45) (-29)) / F2R (Float radix2 45 (-29)) = F2R (Float radix2 x 0)).
  { rewrite F2R_int. unfold F2R; cbn [Fnum Fexp]. rewrite mult_IZR. field. apply Rgt_not_eq, bpow_gt_0. }
  rewrite Hquot, (rnd_exact x 0) in Hd by lia.
  rewrite Rlt_bool_true in Hd by (apply F2R_bound; lia).
  destruct Hd as (HdR & HdF & _). rewrite HmF in HdF. rewrite <- div_equiv in HdR, HdF.
  rewrite F2R_int in HdR. split; assumption.
Qed.

Lemma finite_not_nan_inf (f : PrimFloat.float) : is_finite (Prim2B f) = true -> PrimFloat.is_nan f || is_inf f = false.
Proof.
  intros Hf. unfold is_inf.
  rewrite is_nan_equiv, !eqb_equiv, infinity_equiv, neg_infinity_equiv, !Prim2B_B2Prim.
  destruct (Prim2B f) as [s|s| |s m e p]; try discriminate Hf; reflexivity.
Qed.

Theorem semicircles_roundtrip (x : Z) : (- 2 ^ 31 <= x < 2 ^ 31)%Z -> to_semicircles (to_degrees x) = x.
Proof.
  intros Hx. unfold to_degrees. destruct (Z.eqb_spec x sint32_invalid) as [->|Hne].
  - reflexivity.
  - unfold to_semicircles.
    destruct (semi_quotient x Hx) as [HR HF].
    (* the degrees value itself is finite: it is the exact product *)
    assert (Fdeg : is_finite (Prim2B (of_Z x * semi_cf)%float) = true).
    { destruct (of_Z_exact x ltac:(lia)) as [Hfx Ffx]. destruct cf_exact as [Hc Fc].
      pose proof (Bmult_correct prec emax Hprec Hmax mode_NE (Prim2B (of_Z x)) (Prim2B semi_cf)) as Hm.
      rewrite Hfx, Hc in Hm.
      assert (Hprod : IZR x * F2R (Float radix2 45 (-29)) = F2R (Float radix2 (x * 45) (-29))).
      { unfold F2R; cbn [Fnum Fexp]. rewrite mult_IZR. ring. }
      rewrite Hprod, (rnd_exact (x * 45) (-29)) in Hm by lia.
      rewrite Rlt_bool_true in Hm by (apply F2R_bound; lia).
      destruct Hm as (_ & HmF & _). rewrite Ffx, Fc in HmF. rewrite <- mul_equiv in HmF. exact HmF. }
    rewrite (finite_not_nan_inf _ Fdeg).
    rewrite (trunc_of_int _ x HR). apply wrap_int_id; [lia|]. unfold in_int_range. exact Hx.
Qed.
