(* C14 -- proofs about the listener protocol model (Model/Listener.v): invariant, progress for every pool size P >= 1
   (any queue size B, rendezvous included, any number K of slots cleared by Close), finiteness of every execution,
   what a finished run has processed, no carry-over into the next sequence, deadlock for an empty pool. *)
From Coq Require Import List Lia Arith Bool Wf_nat.
Import ListNotations.
From Fit Require Import Model.Listener.

Section ListenerProofs.
Context {M : Type}.
Variables (P B K : nat).
Notation st := (@st M).
Notation steps := (@steps M P B K).
Notation caller_steps := (@caller_steps M P B K).
Notation worker_steps := (@worker_steps M P).
Notation init := (@init M P).
Notation final := (@final M).

(* ---- invariant: slices are conserved, messages stay in FIFO order, flags are consistent *)
Definition held_c (s : st) := match c s with CHave _ _ => 1 | CClosing _ true => 1 | _ => 0 end.
Definition held_w (s : st) := match w s with WHave _ => 1 | _ => 0 end.
Definition todo_c (s : st) := match c s with CIdle r => r | CHave m r => m :: r | _ => [] end.
Definition inflight_w (s : st) := match w s with WHave m => [m] | _ => [] end.
Definition closing (s : st) := match c s with CIdle _ | CHave _ _ => false | _ => true end.

Definition Inv (ms : list M) (s : st) :=
  pool s + held_c s + held_w s + length (q s) = P /\
  processed s ++ inflight_w s ++ q s ++ todo_c s = ms /\
  closed s = closing s /\
  (done s = true <-> w s = WExit) /\
  (w s = WExit -> q s = [] /\ closed s = true) /\
  (B = 0 -> q s = []) /\ length (q s) <= B.

Lemma inv_init ms : Inv ms (init ms).
Proof. unfold Inv, init; cbn. repeat split; intros; try lia; try discriminate; auto. Qed.

Ltac inv_tac := unfold Inv, held_c, held_w, todo_c, inflight_w, closing in *; cbn [c w pool q closed done processed set_c] in *.

Ltac fin := intros; subst; cbn in *; try lia; try congruence; try tauto; try discriminate;
  repeat match goal with H : ?x = ?x -> _ |- _ => specialize (H eq_refl) end;
  try (intuition (try congruence; try lia; try discriminate)).
Ltac cj := repeat match goal with |- _ /\ _ => split | |- _ <-> _ => split end; fin.
Ltac one Hin := destruct Hin as [<-|[]].

Lemma step_inv ms s s' : Inv ms s -> In s' (steps s) -> Inv ms s'.
Proof.
  intros HI Hin. unfold steps in Hin. apply in_app_iff in Hin. destruct Hin as [Hin|Hin].
  - unfold caller_steps in Hin. destruct s as [cs ws p qs cl dn pr]. inv_tac.
    destruct HI as (H1 & H2 & H3 & H4 & H5 & H6 & H7).
    destruct cs as [[|m r]|m r|[|k] [|]| |]; cbn -[Nat.ltb Nat.eqb] in Hin.
    + one Hin. inv_tac. destruct ws; cj.
    + destruct (0 <? p) eqn:E; [|cbn in Hin; destruct Hin]. apply Nat.ltb_lt in E. one Hin. inv_tac. destruct ws; cj.
    + destruct (length qs <? B) eqn:E.
      * apply Nat.ltb_lt in E. one Hin. inv_tac. rewrite app_length. destruct ws; cj.
        all: try (rewrite <- !app_assoc; reflexivity).
      * destruct ((B =? 0) && _ && _) eqn:E2; [|cbn in Hin; destruct Hin]. one Hin.
        apply andb_prop in E2. destruct E2 as [E2 Eq]. apply andb_prop in E2. destruct E2 as [EB Ew].
        destruct ws; try discriminate. destruct qs; try discriminate. inv_tac. cj.
    + destruct (p <? P) eqn:E; [|cbn in Hin; destruct Hin]. one Hin. inv_tac. destruct ws; cj.
    + one Hin. inv_tac. destruct ws; cj.
    + destruct (p <? P) eqn:E; [|cbn in Hin; destruct Hin]. one Hin. inv_tac. destruct ws; cj.
    + destruct (0 <? p) eqn:E; [|cbn in Hin; destruct Hin]. apply Nat.ltb_lt in E. one Hin. inv_tac. destruct ws; cj.
    + destruct dn; [|cbn in Hin; destruct Hin]. one Hin. inv_tac. destruct ws; cj.
    + destruct Hin.
  - unfold worker_steps in Hin. destruct s as [cs ws p qs cl dn pr]. inv_tac.
    destruct HI as (H1 & H2 & H3 & H4 & H5 & H6 & H7).
    destruct ws as [|m|]; cbn -[Nat.ltb Nat.eqb] in Hin.
    + destruct qs as [|m r].
      * destruct cl; [|cbn in Hin; destruct Hin]. one Hin. inv_tac. destruct cs; cj.
      * one Hin. inv_tac. destruct cs; cj.
    + destruct (p <? P) eqn:E; [|cbn in Hin; destruct Hin]. one Hin. inv_tac. destruct cs; cj.
      all: try (rewrite <- !app_assoc; reflexivity).
    + destruct Hin.
Qed.

(* ---- progress: with at least one slice in the pool nobody is ever stuck *)
Lemma nonnil_l {X} (a b : list X) : a <> [] -> a ++ b <> [].
Proof. destruct a; [congruence|discriminate]. Qed.
Lemma nonnil_r {X} (a b : list X) : b <> [] -> a ++ b <> [].
Proof. destruct a; [auto|discriminate]. Qed.

Theorem progress ms s : 0 < P -> Inv ms s -> ~ final s -> steps s <> [].
Proof.
  intros HP HI Hnf. destruct s as [cs ws p qs cl dn pr]. unfold steps, final in *. inv_tac.
  destruct HI as (H1 & H2 & H3 & H4 & H5 & H6 & H7).
  destruct ws as [|m|].
  - (* worker waiting on mesgc *)
    destruct qs as [|m r]; [|apply nonnil_r; cbn; discriminate].
    destruct cl; [apply nonnil_r; cbn; discriminate|].
    apply nonnil_l. unfold caller_steps. cbn -[Nat.ltb Nat.eqb].
    destruct cs as [[|m r]|m r|k h| |]; cbn -[Nat.ltb Nat.eqb] in *; try discriminate.
    + replace (0 <? p) with true by (symmetry; apply Nat.ltb_lt; lia). discriminate.
    + destruct (0 <? B) eqn:EB; [discriminate|]. apply Nat.ltb_ge in EB.
      replace (B =? 0) with true by (symmetry; apply Nat.eqb_eq; lia). cbn. discriminate.
  - (* worker holds a message and its slice: the pool has room *)
    apply nonnil_r. cbn -[Nat.ltb]. replace (p <? P) with true by (symmetry; apply Nat.ltb_lt; cbn in *; lia). discriminate.
  - (* worker exited: done is set, mesgc closed and empty *)
    destruct (H5 eq_refl) as [-> ->]. assert (dn = true) as -> by (apply H4; reflexivity).
    apply nonnil_l. unfold caller_steps. cbn -[Nat.ltb Nat.eqb].
    destruct cs as [[|m r]|m r|[|k] [|]| |]; cbn -[Nat.ltb Nat.eqb] in *; try discriminate; try tauto.
    all: try (replace (p <? P) with true by (symmetry; apply Nat.ltb_lt; lia); discriminate).
    all: try (replace (0 <? p) with true by (symmetry; apply Nat.ltb_lt; lia); discriminate).
Qed.

(* ---- termination: every step decreases a natural-number measure *)
Definition mu (s : st) :=
  (match c s with
   | CIdle r => 4 * length r + 2 * K + 4
   | CHave _ r => 4 * length r + 3 + 2 * K + 4
   | CClosing k false => 2 * k + 3
   | CClosing k true => 2 * k + 2
   | CWaitDone => 1
   | CDone => 0
   end) + (match w s with WRecv => 1 | WHave _ => 2 | WExit => 0 end) + 2 * length (q s).

Ltac mu_tac := unfold mu; cbn [c w q set_c length]; try rewrite app_length; cbn [length]; try lia.

Lemma step_decreases s s' : In s' (steps s) -> mu s' < mu s.
Proof.
  intros Hin. unfold steps in Hin. apply in_app_iff in Hin. destruct s as [cs ws p qs cl dn pr]. destruct Hin as [Hin|Hin].
  - unfold caller_steps in Hin; cbn [c w pool q closed done processed] in Hin.
    destruct cs as [[|m r]|m r|[|k] [|]| |]; cbn -[Nat.ltb Nat.eqb] in Hin.
    + one Hin. mu_tac.
    + destruct (0 <? p); [|cbn in Hin; destruct Hin]. one Hin. mu_tac.
    + destruct (length qs <? B).
      * one Hin. mu_tac.
      * destruct ((B =? 0) && _ && _) eqn:E2; [|cbn in Hin; destruct Hin]. one Hin.
        apply andb_prop in E2. destruct E2 as [E2 _]. apply andb_prop in E2. destruct E2 as [_ Ew].
        destruct ws; try discriminate. mu_tac.
    + destruct (p <? P); [|cbn in Hin; destruct Hin]. one Hin. mu_tac.
    + one Hin. mu_tac.
    + destruct (p <? P); [|cbn in Hin; destruct Hin]. one Hin. mu_tac.
    + destruct (0 <? p); [|cbn in Hin; destruct Hin]. one Hin. mu_tac.
    + destruct dn; [|cbn in Hin; destruct Hin]. one Hin. mu_tac.
    + destruct Hin.
  - unfold worker_steps in Hin; cbn [c w pool q closed done processed] in Hin.
    destruct ws as [|m|]; cbn -[Nat.ltb Nat.eqb] in Hin.
    + destruct qs as [|m r]; [destruct cl; [|cbn in Hin; destruct Hin]|]; one Hin; mu_tac.
    + destruct (p <? P); [|cbn in Hin; destruct Hin]. one Hin. mu_tac.
    + destruct Hin.
Qed.

(* ---- what a finished run has done *)
Theorem final_processed ms s : Inv ms s -> final s -> processed s = ms.
Proof.
  intros (H1 & H2 & H3 & H4 & H5 & H6 & H7) Hf. destruct s as [cs ws p qs cl dn pr]. unfold final in Hf. cbn in *.
  destruct cs; try tauto. destruct ws; try tauto. inv_tac. destruct (H5 eq_refl) as [-> _]. cbn in H2. rewrite !app_nil_r in H2. exact H2.
Qed.


(* ---- reachable states satisfy the invariant *)
Lemma reach_inv ms s : reach P B K (init ms) s -> Inv ms s.
Proof. induction 1 as [|s s' Hr IH Hs]; [apply inv_init|eapply step_inv; eassumption]. Qed.

(* ---- every execution is finite: the successor relation is well founded *)
Theorem steps_wf : well_founded (fun s' s : st => In s' (steps s)).
Proof.
  apply (well_founded_lt_compat _ mu). intros s' s H. apply step_decreases, H.
Qed.

Lemma final_b_final s : final_b s = true <-> final s.
Proof. unfold final_b, final. destruct (c s), (w s); split; intros; try discriminate; try tauto. Qed.

(* ---- a maximal execution of one sequence ends in the final state: worker has processed exactly the messages, in order,
        every slice is back in the pool, the queue is empty *)
Theorem maximal_final ms s : 0 < P -> maximal P B K (init ms) s ->
  final s /\ processed s = ms /\ pool s = P /\ q s = [].
Proof.
  intros HP [Hr Hmax]. pose proof (reach_inv ms s Hr) as HI.
  assert (Hf : final s).
  { destruct (final_b s) eqn:E; [apply final_b_final, E|]. exfalso. apply (progress ms s HP HI); [|exact Hmax].
    intros Hf. apply final_b_final in Hf. congruence. }
  split; [exact Hf|]. split; [apply (final_processed ms s HI Hf)|].
  destruct HI as (H1 & H2 & H3 & H4 & H5 & H6 & H7). destruct s as [cs ws p qs cl dn pr]. unfold final in Hf. cbn in *.
  destruct cs; try tauto. destruct ws; try tauto. destruct (H5 eq_refl) as [-> _]. cbn in *. split; [lia|reflexivity].
Qed.

(* ---- no carry-over: after File() the next OnMesg starts the next sequence from the initial state *)
Theorem next_is_init ms s ms' : 0 < P -> maximal P B K (init ms) s -> next_sequence s ms' = init ms'.
Proof.
  intros HP Hm. destruct (maximal_final ms s HP Hm) as (_ & _ & Hp & _). unfold next_sequence, Listener.init. rewrite Hp. reflexivity.
Qed.

(* ---- with an empty pool the first OnMesg blocks forever *)
Theorem empty_pool_deadlock m ms : P = 0 -> steps (init (m :: ms)) = [] /\ ~ final (init (m :: ms)).
Proof. intros ->. split; [reflexivity|cbn; tauto]. Qed.
End ListenerProofs.
