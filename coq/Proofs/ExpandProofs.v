(* C05 on Model/Decoder.v: component expansion only appends fields marked as expanded and may change the VALUE of fields that
   are already there (destinations); it never changes which fields a message has, their definitions or their marks.  Hence a
   message decoded with expansion off has exactly the non-expanded fields of the message decoded with expansion on. *)
From Coq Require Import NArith ZArith List Lia Bool.
Import ListNotations.
From Fit Require Import Model.Decoder.
Open Scope N_scope.

Definition sig1 (f : field) := (f_fb f, f_known f, f_expanded f).
Definition sig (fs : list field) := map sig1 fs.
(* fs' extends fs: same signature prefix, everything after it is marked expanded *)
Definition extends (fs fs' : list field) : Prop :=
  exists ext, sig fs' = sig fs ++ sig ext /\ Forall (fun f => f_expanded f = true) ext.

Lemma extends_refl fs : extends fs fs.
Proof. exists []. split; [unfold sig; cbn; rewrite app_nil_r; reflexivity|constructor]. Qed.
Lemma extends_trans a b c : extends a b -> extends b c -> extends a c.
Proof.
  intros (e1 & H1 & F1) (e2 & H2 & F2). exists (e1 ++ e2). split.
  - rewrite H2, H1. unfold sig. rewrite map_app, app_assoc. reflexivity.
  - apply Forall_app. split; assumption.
Qed.

Lemma sig_replace fs : forall j fr v, nth_opt fs j = Some fr -> sig (replace_nth fs j (set_value fr v)) = sig fs.
Proof.
  induction fs as [|x fs IH]; intros j fr v H; destruct j; cbn in H; try discriminate.
  - injection H as ->. reflexivity.
  - cbn [replace_nth sig map]. f_equal. apply IH. exact H.
Qed.

Lemma extends_replace fs j fr v : nth_opt fs j = Some fr -> extends fs (replace_nth fs j (set_value fr v)).
Proof. intros H. exists []. split; [rewrite (sig_replace _ _ _ _ H); unfold sig; cbn; rewrite app_nil_r; reflexivity|constructor]. Qed.
Lemma extends_append fs f : f_expanded f = true -> extends fs (fs ++ [f]).
Proof. intros H. exists [f]. split; [unfold sig; rewrite map_app; reflexivity|constructor; [exact H|constructor]]. Qed.

Lemma expand_loop_extends rec mesgnum many :
  (forall fs acc v b cc, extends fs (fst (rec fs acc v b cc))) ->
  forall cs store fs acc, extends fs (fst (expand_loop rec mesgnum many cs store fs acc)).
Proof.
  intros Hrec. induction cs as [|cmp rest IHcs]; intros store fs acc; cbn [expand_loop]; [apply extends_refl|].
  cbv zeta.
  destruct ((fst (pull store (c_bits cmp)) =? 0) && many); [apply extends_refl|].
  match goal with |- extends fs (fst (expand_loop rec mesgnum many rest ?st (fst (rec ?fs1 ?a ?v ?b ?cc)) ?a2)) =>
    assert (H1 : extends fs fs1) end.
  { destruct (last_index fs (c_num cmp) 0 None) as [j|].
    - destruct (nth_opt fs j) as [fr|] eqn:En; [apply extends_replace; exact En|apply extends_refl].
    - apply extends_append. reflexivity. }
  eapply extends_trans; [exact H1|]. eapply extends_trans; [apply Hrec|apply IHcs].
Qed.

Lemma expand_components_extends : forall fuel mesgnum fs acc containing base comps,
  extends fs (fst (expand_components fuel mesgnum fs acc containing base comps)).
Proof.
  induction fuel as [|fuel IH]; intros mesgnum fs acc containing base comps; cbn [expand_components]; [apply extends_refl|].
  destruct comps as [|c0 comps0]; [apply extends_refl|].
  destruct (negb (valid containing base)); [apply extends_refl|].
  destruct (make_bits containing) as [store|]; [|apply extends_refl].
  apply expand_loop_extends. intros. apply IH.
Qed.

Lemma expand_all_extends : forall k i mesgnum fs acc, extends fs (fst (expand_all k i mesgnum fs acc)).
Proof.
  induction k as [|k IH]; intros i mesgnum fs acc; cbn [expand_all]; [apply extends_refl|].
  destruct (nth_opt fs i) as [f|]; [|apply extends_refl].
  match goal with |- context[expand_components ?fu ?m ?a ?b ?c ?d ?e] =>
    pose proof (expand_components_extends fu m a b c d e) as H1; destruct (expand_components fu m a b c d e) as [fs1 acc1] end.
  cbn [fst] in H1. eapply extends_trans; [exact H1|apply IH].
Qed.

(* when no wire field is marked, the unmarked fields after expansion are exactly the wire fields (up to destination values) *)
Lemma filter_sig fs ext : Forall (fun f => f_expanded f = false) fs -> Forall (fun f => f_expanded f = true) ext ->
  forall fs', map sig1 fs' = map sig1 fs ++ map sig1 ext -> map sig1 (filter (fun f => negb (f_expanded f)) fs') = map sig1 fs.
Proof.
  intros Hfs Hext. revert ext Hext. induction Hfs as [|x fs Hx Hfs IH]; intros ext Hext fs' H.
  - cbn [map app] in H. revert fs' H. induction Hext as [|e ext He Hext IHe]; intros fs' H.
    + destruct fs'; [reflexivity|discriminate].
    + destruct fs' as [|y fs']; [discriminate|]. cbn [map] in H.
      assert (Ey : f_expanded y = true) by (unfold sig1 in H; congruence).
      assert (H' : map sig1 fs' = map sig1 ext) by congruence.
      cbn [filter]. rewrite Ey. cbn [negb]. apply IHe. exact H'.
  - destruct fs' as [|y fs']; [discriminate|]. cbn [map app] in H.
    assert (Ey : f_expanded y = false) by (unfold sig1 in H; congruence).
    assert (Hy : sig1 y = sig1 x) by congruence.
    assert (H' : map sig1 fs' = map sig1 fs ++ map sig1 ext) by congruence.
    cbn [filter]. rewrite Ey. cbn [negb map]. f_equal; [exact Hy|]. apply (IH ext Hext). exact H'.
Qed.

Theorem expansion_off_is_on_minus_expanded k i mesgnum fs acc :
  Forall (fun f => f_expanded f = false) fs ->
  sig (filter (fun f => negb (f_expanded f)) (fst (expand_all k i mesgnum fs acc))) = sig fs.
Proof.
  intros Hfs. destruct (expand_all_extends k i mesgnum fs acc) as (ext & H & Hext). unfold sig in *. eapply filter_sig; eassumption.
Qed.
