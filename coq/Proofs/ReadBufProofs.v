(* C08: ReadN over an arbitrary chunking reader refines "take n bytes of the stream" (from the design-phase probe, now
   over the constant translated from readbuffer.go). *)
From Coq Require Import NArith ZArith List Lia Arith Bool.
Import ListNotations.
From Fit Require Import Model.ReadBuf.

Lemma RESERVED_val : RESERVED = 765. Proof. reflexivity. Qed.

Lemma rd_read_spec cap r bs e r' :
  rd_read cap r = (bs, e, r') -> 0 < cap ->
  rest r = bs ++ rest r' /\ length bs <= cap /\
  (rest r <> [] -> 0 < length bs) /\ (rest r = [] -> bs = [] /\ e = Some EOF) /\
  (e = None \/ e = Some EOF) /\ (e = Some EOF -> rest r' = []).
Proof.
  unfold rd_read. destruct (rest r) as [|x xs] eqn:Hr.
  - intros H _. inversion H; subst. rewrite Hr. cbn.
    split; [reflexivity|]. split; [lia|]. split; [congruence|]. split; [auto|]. split; [auto|]. auto.
  - set (want := match plan r with [] => 1 | k :: _ => Nat.max 1 k end).
    set (k := Nat.min cap (Nat.min want (length (x :: xs)))).
    intros H Hc. inversion H; subst; clear H. cbn [rest].
    assert (Hw : 1 <= want) by (unfold want; destruct (plan r); lia).
    assert (Hk : 1 <= k <= cap) by (unfold k; cbn [length]; lia).
    split; [symmetry; apply firstn_skipn|].
    split; [rewrite firstn_length; lia|].
    split; [intros _; rewrite firstn_length; cbn [length] in *; unfold k in *; cbn [length]; lia|].
    split; [discriminate|].
    split.
    + destruct (eof_with_data r); [destruct (skipn k (x :: xs)); [right|left]; reflexivity | left; reflexivity].
    + destruct (eof_with_data r); [|discriminate]. destruct (skipn k (x :: xs)); [auto|discriminate].
Qed.

Lemma ral_spec fuel cap min acc r res e r' :
  ral_loop fuel cap min acc r = (res, e, r') ->
  min <= cap -> min <= length acc + fuel -> length acc <= cap ->
  acc ++ rest r = res ++ rest r' /\ length res <= cap /\
  match e with
  | None => min <= length res
  | Some e => length res < min /\ rest r' = [] /\ (e = EOF /\ res = [] \/ e = UnexpectedEOF /\ res <> [])
  end.
Proof.
  revert acc r. induction fuel as [|fuel IH]; intros acc r; cbn [ral_loop].
  - destruct (min <=? length acc) eqn:E; intros H ? ? ?; inversion H; subst.
    + apply Nat.leb_le in E. auto.
    + apply Nat.leb_gt in E. lia.
  - destruct (min <=? length acc) eqn:E.
    + intros H ? ? ?; inversion H; subst. apply Nat.leb_le in E. auto.
    + apply Nat.leb_gt in E. destruct (rd_read (cap - length acc) r) as [[bs e0] r0] eqn:Hrd.
      intros H Hmc Hf Hac.
      destruct (rd_read_spec _ _ _ _ _ Hrd ltac:(lia)) as (Hsplit & Hlen & Hpos & Hemp & He0 & Heof).
      destruct e0 as [e0|].
      * destruct He0 as [?|He0]; [discriminate|]. inversion He0; subst e0. specialize (Heof eq_refl).
        destruct (min <=? length (acc ++ bs)) eqn:E2.
        { inversion H; subst. apply Nat.leb_le in E2. rewrite app_length in *.
          split; [rewrite Hsplit, app_assoc; reflexivity|]. split; lia. }
        apply Nat.leb_gt in E2.
        destruct (0 <? length (acc ++ bs)) eqn:E3; inversion H; subst; rewrite app_length in *.
        { apply Nat.ltb_lt in E3. split; [rewrite Hsplit, app_assoc; reflexivity|]. split; [lia|].
          split; [lia|]. split; [auto|]. right. split; auto. intro Hn. apply (f_equal (@length N)) in Hn. rewrite app_length in Hn. cbn in Hn. lia. }
        { apply Nat.ltb_ge in E3. assert (acc ++ bs = []) as Hn by (apply length_zero_iff_nil; rewrite app_length; lia).
          split; [rewrite Hsplit, app_assoc; reflexivity|]. split; [lia|]. split; [lia|]. split; [auto|]. left; auto. }
      * assert (Hne : rest r <> []). { intro Hn. destruct (Hemp Hn) as [_ ?]. discriminate. }
        specialize (Hpos Hne).
        destruct (IH (acc ++ bs) r0 H Hmc) as (Hs2 & Hl2 & He2).
        { rewrite app_length. lia. } { rewrite app_length. lia. }
        split; [|split; auto]. rewrite Hsplit, app_assoc. exact Hs2.
Qed.

Lemma firstn_skipn_slice {A} (l : list A) a n : firstn n (skipn a l) ++ skipn (a + n) l = skipn a l.
Proof. rewrite <- (firstn_skipn n (skipn a l)) at 2. f_equal. revert l; induction a; intros l; cbn; [reflexivity|destruct l; [rewrite !skipn_nil; reflexivity|apply IHa]]. Qed.

(* ---------------------------------------------------------------- main refinement *)
Lemma firstn_app_exact {A} (a b : list A) n : n = length a -> firstn n (a ++ b) = a.
Proof. intros ->. rewrite firstn_app, Nat.sub_diag, firstn_all. cbn. apply app_nil_r. Qed.
Lemma skipn_app_exact {A} (a b : list A) n : n = length a -> skipn n (a ++ b) = b.
Proof. intros ->. rewrite skipn_app, Nat.sub_diag, skipn_all. reflexivity. Qed.

Lemma slice_mid {A} (a m c : list A) i k : i = length a -> k = length m -> firstn k (skipn i (a ++ m ++ c)) = m.
Proof. intros Hi Hk. rewrite (skipn_app_exact a _ i Hi). apply firstn_app_exact; exact Hk. Qed.

Lemma firstn_split {A} (l : list A) a b : firstn (a + b) l = firstn a l ++ firstn b (skipn a l).
Proof. revert l; induction a as [|a IH]; intros l; cbn; [reflexivity|]. destruct l; cbn; [rewrite firstn_nil; reflexivity|]. f_equal. apply IH. Qed.

Lemma skipn_skipn' {A} (l : list A) a b : skipn a (skipn b l) = skipn (b + a) l.
Proof. revert l; induction b as [|b IH]; intros l; cbn; [reflexivity|]. destruct l; cbn; [apply skipn_nil|apply IH]. Qed.

Lemma pending_advance b n :
  cur b + n <= last b -> last b <= length (buf b) ->
  pending {| buf := buf b; cur := cur b + n; last := last b |} = skipn n (pending b)
  /\ firstn n (skipn (cur b) (buf b)) = firstn n (pending b).
Proof.
  intros H1 H2. unfold pending; cbn [buf cur last]. split.
  - replace (last b - cur b) with (n + (last b - (cur b + n))) by lia.
    rewrite firstn_split, (skipn_app_exact (firstn n _)).
    + rewrite skipn_skipn'. reflexivity.
    + rewrite firstn_length, skipn_length. lia.
  - rewrite firstn_firstn. f_equal. lia.
Qed.

Theorem read_n_spec b r n :
  inv b -> n <= RESERVED ->
  match read_n b r n with
  | (Ok bytes, b', r') =>
      n <= length (stream b r) /\ bytes = firstn n (stream b r) /\
      stream b' r' = skipn n (stream b r) /\ inv b'
  | (Err e, _, r') => length (stream b r) < n /\ (e = EOF \/ e = UnexpectedEOF)
  | (Panic, _, _) => False
  end.
Proof.
  intros (Hcl & HlL & HL) Hn. unfold read_n.
  assert (Hplen : length (pending b) = last b - cur b).
  { unfold pending. rewrite firstn_length, skipn_length. lia. }
  destruct (last b - cur b <? n) eqn:Erem.
  2:{ (* enough buffered *)
    apply Nat.ltb_ge in Erem.
    destruct (length (buf b) <? cur b + n) eqn:Eb; [apply Nat.ltb_lt in Eb; lia|].
    destruct (pending_advance b n ltac:(lia) HlL) as [Hadv Hfst].
    unfold stream. rewrite app_length, Hplen.
    split; [lia|]. split.
    - rewrite firstn_app. replace (n - length (pending b)) with 0 by lia. cbn. rewrite app_nil_r. exact Hfst.
    - split.
      + rewrite Hadv, skipn_app. replace (n - length (pending b)) with 0 by lia. reflexivity.
      + unfold inv; cbn [buf cur last]. lia. }
  apply Nat.ltb_lt in Erem.
  set (rem := last b - cur b) in *.
  destruct (RESERVED <? rem) eqn:E1; [apply Nat.ltb_lt in E1; lia|].
  set (cur' := if rem =? 0 then RESERVED else RESERVED - rem).
  set (buf1 := if rem =? 0 then buf b else memmove cur' (last b - rem) (buf b)).
  assert (Hcur' : cur' + rem = RESERVED).
  { unfold cur'. destruct (rem =? 0) eqn:E; [apply Nat.eqb_eq in E|apply Nat.eqb_neq in E]; lia. }
  (* shape of buf1: A ++ pending ++ Y with |A| = cur' *)
  assert (Hshape : exists A Y, buf1 = A ++ pending b ++ Y /\ length A = cur' /\ length buf1 = length (buf b)).
  { unfold buf1. destruct (rem =? 0) eqn:E.
    - apply Nat.eqb_eq in E. exists (firstn cur' (buf b)), (skipn cur' (buf b)).
      assert (pending b = []) as -> by (apply length_zero_iff_nil; lia). cbn [app].
      rewrite firstn_skipn, firstn_length. repeat split; lia.
    - apply Nat.eqb_neq in E. unfold memmove.
      replace (last b - rem) with (cur b) by (unfold rem; lia).
      set (k := Nat.min (length (buf b) - cur') (length (buf b) - cur b)).
      assert (Hk : rem <= k) by (unfold k, rem; lia).
      exists (firstn cur' (buf b)), (firstn (k - rem) (skipn rem (skipn (cur b) (buf b))) ++ skipn (cur' + k) (buf b)).
      split; [|split].
      + f_equal. rewrite app_assoc. f_equal.
        replace k with (rem + (k - rem)) at 1 by lia. rewrite firstn_split. reflexivity.
      + rewrite firstn_length. lia.
      + rewrite !app_length, !firstn_length, !skipn_length. unfold k in *. lia. }
  destruct Hshape as (A & Y & Hb1 & HA & Hlen1).
  destruct (length buf1 <? RESERVED) eqn:E2; [apply Nat.ltb_lt in E2; lia|].
  destruct (read_at_least (length buf1 - RESERVED) (n - rem) r) as [[bs e] r'] eqn:Hral.
  unfold read_at_least in Hral.
  destruct (length buf1 - RESERVED <? n - rem) eqn:E3; [apply Nat.ltb_lt in E3; lia|].
  apply ral_spec in Hral; [|apply Nat.ltb_ge in E3; lia|cbn; lia|cbn; lia].
  cbn [app length] in Hral. destruct Hral as (Hsplit & Hbslen & He).
  unfold stream. rewrite app_length, Hplen, Hsplit, app_length. fold rem.
  destruct e as [e|].
  - destruct He as (Hlt & Hnil & Hk). rewrite Hnil. cbn [length]. split; [lia|].
    destruct Hk as [[-> _]|[-> _]]; auto.
  - set (buf2 := overwrite RESERVED bs buf1).
    assert (Hb2 : buf2 = A ++ (pending b ++ bs) ++ skipn (RESERVED + length bs) buf1 /\ length buf2 = length buf1).
    { unfold buf2, overwrite. split.
      - assert (Hf : firstn RESERVED buf1 = A ++ pending b).
        { rewrite Hb1, app_assoc. apply firstn_app_exact. rewrite app_length. lia. }
        rewrite Hf, <- !app_assoc. reflexivity.
      - rewrite !app_length, firstn_length, skipn_length. lia. }
    destruct Hb2 as [Hb2 Hlen2].
    destruct (length buf2 <? cur' + n) eqn:E4; [apply Nat.ltb_lt in E4; lia|].
    assert (Hall : firstn (rem + length bs) (skipn cur' buf2) = pending b ++ bs).
    { rewrite Hb2. apply slice_mid; [lia|rewrite app_length; lia]. }
    split; [lia|]. split.
    + rewrite app_assoc, firstn_app. rewrite app_length, Hplen. fold rem.
      replace (n - (rem + length bs)) with 0 by lia. cbn. rewrite app_nil_r, <- Hall.
      rewrite firstn_firstn. f_equal. lia.
    + split.
      * unfold pending; cbn [buf cur last].
        replace (RESERVED + length bs - (cur' + n)) with (rem + length bs - n) by lia.
        rewrite <- skipn_skipn', firstn_skipn_comm.
        replace (n + (rem + length bs - n)) with (rem + length bs) by lia.
        rewrite Hall. symmetry. rewrite (app_assoc (pending b)), (skipn_app n (pending b ++ bs)).
        replace (n - length (pending b ++ bs)) with 0 by (rewrite app_length; lia). reflexivity.
      * unfold inv; cbn [buf cur last]. lia.
Qed.


(* Consequences used by C08 (DESIGN.md):
   - the bytes delivered by any sequence of ReadN calls depend only on the stream, never on
     [plan], [eof_with_data] or the buffer size (any length >= 2*RESERVED);
   - an error occurs iff fewer than n bytes remain;
   - its kind is NOT a function of the stream: EOF iff the refill itself obtained nothing,
     UnexpectedEOF iff it obtained some bytes -- the finding eof_kind_depends_on_chunking. *)

(* ---- any two readers/buffers over the same stream answer every script of requests alike (error kind aside) *)
Definition erase_kind (o : outcome (list N)) : outcome (list N) := match o with Err _ => Err EOF | x => x end.

Theorem scripts_agree : forall ns b1 r1 b2 r2, inv b1 -> inv b2 -> stream b1 r1 = stream b2 r2 ->
  Forall (fun n => n <= RESERVED) ns ->
  map erase_kind (run_script b1 r1 ns) = map erase_kind (run_script b2 r2 ns).
Proof.
  induction ns as [|n ns IH]; intros b1 r1 b2 r2 Hi1 Hi2 Hs Hns; [reflexivity|].
  inversion Hns as [|? ? Hn Hrest]; subst. cbn [run_script].
  pose proof (read_n_spec b1 r1 n Hi1 Hn) as H1. pose proof (read_n_spec b2 r2 n Hi2 Hn) as H2.
  destruct (read_n b1 r1 n) as [[o1 b1'] r1']. destruct (read_n b2 r2 n) as [[o2 b2'] r2'].
  destruct o1 as [x1|e1|]; destruct o2 as [x2|e2|]; try contradiction.
  - destruct H1 as (L1 & -> & S1 & I1). destruct H2 as (L2 & -> & S2 & I2). cbn [map erase_kind]. rewrite Hs. f_equal.
    apply IH; [exact I1|exact I2|rewrite S1, S2, Hs; reflexivity|exact Hrest].
  - destruct H1 as (L1 & _). destruct H2 as (L2 & _). rewrite Hs in L1. lia.
  - destruct H1 as (L1 & _). destruct H2 as (L2 & _). rewrite Hs in L1. lia.
  - reflexivity.
Qed.

(* the largest request the decoder ever issues (255 field definitions of 3 bytes; discardMessages uses reservedbuf itself) fits *)
Theorem requests_fit : 255 * 3 <= RESERVED.
Proof. apply Nat.leb_le. vm_compute. reflexivity. Qed.

Lemma rb_new_inv size : inv (rb_new size).
Proof. unfold inv, rb_new, clamp_size. cbn [cur last buf]. rewrite repeat_length. lia. Qed.

(* ---- a reused buffer: Reset keeps or replaces the array; the window is always RESERVED + clamp(size) long and within the
   capacity, whatever the buffer was used with before *)
Lemma clamp_ge size : RESERVED <= clamp_size size. Proof. unfold clamp_size. lia. Qed.

Theorem rb_reset_ok (s : rstate) size :
  exists s', rb_reset s size = Ok s' /\ inv (fst s') /\ length (buf (fst s')) = RESERVED + clamp_size size /\
             pending (fst s') = [] /\ rb_cap s <= rb_cap s' /\
             (RESERVED + clamp_size size <= rb_cap s -> rb_cap s' = rb_cap s).
Proof.
  unfold rb_reset, rb_cap. destruct s as [b tl]. cbn [fst snd].
  pose proof (clamp_ge size) as Hc. pose proof RESERVED_val as HR.
  set (k := clamp_size size) in *. rewrite <- app_length.
  set (arr := buf b ++ tl) in *.
  destruct (Z.ltb_spec (Z.of_nat (length arr) - Z.of_nat RESERVED) (Z.of_nat k)) as [Hlt | Hge].
  - assert (Hl : length (repeat 0%N (RESERVED + k)) = RESERVED + k) by apply repeat_length.
    rewrite Hl. rewrite Nat.ltb_irrefl. eexists; split; [reflexivity|]. cbn [fst snd buf cur last].
    rewrite firstn_all2 by lia. rewrite skipn_all2 by lia. rewrite Hl. cbn [length].
    unfold inv, pending. cbn [buf cur last]. rewrite Hl. repeat split; try lia.
  - assert (Hle : RESERVED + k <= length arr) by lia.
    destruct (Nat.ltb_spec (length arr) (RESERVED + k)) as [Hbad | _]; [lia|].
    eexists; split; [reflexivity|]. cbn [fst snd buf cur last].
    rewrite firstn_length, skipn_length. unfold inv, pending. cbn [buf cur last]. rewrite firstn_length.
    repeat split; try lia.
Qed.

(* any history of resets and reads leaves a buffer on which the next Reset succeeds: by rb_reset_ok no state is needed *)
Corollary rb_reset_never_panics s size : rb_reset s size <> Panic.
Proof. destruct (rb_reset_ok s size) as [s' [H _]]. rewrite H. discriminate. Qed.

(* a reused buffer serves the stream like a fresh one of the same size option *)
Theorem reused_like_fresh s size r ns : Forall (fun n => n <= RESERVED) ns ->
  exists s', rb_reset s size = Ok s' /\
  map erase_kind (run_script (fst s') r ns) = map erase_kind (run_script (rb_new size) r ns).
Proof.
  intros Hns. destruct (rb_reset_ok s size) as [s' [H [Hinv [_ [Hp _]]]]].
  exists s'. split; [exact H|]. apply scripts_agree; try assumption.
  - apply rb_new_inv.
  - unfold stream. rewrite Hp. unfold pending, rb_new. cbn [cur last buf]. reflexivity.
Qed.
