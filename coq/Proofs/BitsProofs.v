(* C05 on Model/Decoder.v: (bits).Pull cuts the low k bits off the whole multi-word container and leaves it shifted --
   "bit slices are taken in order from the least significant bit across the whole (possibly array) containing value" --
   and the accumulator of a k-bit wrapping counter yields the running total. *)
From Coq Require Import NArith ZArith List Lia Bool ZifyN ZifyNat ZifyBool.
Import ListNotations.
From Fit Require Import Model.Decoder.
Open Scope N_scope.

(* the container as one number: word i has weight 2^(64 i) *)
Fixpoint V (ws : list N) : N := match ws with [] => 0 | w :: r => w + two64 * V r end.
Definition words_ok (ws : list N) : Prop := Forall (fun w => w < two64) ws.

Lemma two64_val : two64 = 2 ^ 64. Proof. reflexivity. Qed.
Lemma pow_split k : k <= 64 -> two64 = 2 ^ k * 2 ^ (64 - k).
Proof. intros H. rewrite two64_val, <- N.pow_add_r. f_equal. lia. Qed.

Lemma lor_disjoint a c m : a < 2 ^ m -> N.lor a (c * 2 ^ m) = a + c * 2 ^ m.
Proof.
  intros Ha.
  assert (Hland : N.land a (c * 2 ^ m) = 0).
  { apply N.bits_inj. intros n. rewrite N.land_spec, N.bits_0.
    destruct (N.lt_ge_cases n m) as [Hn|Hn].
    - rewrite N.mul_pow2_bits_low by exact Hn. apply andb_false_r.
    - rewrite <- (N.mod_small a (2 ^ m)) by exact Ha. rewrite N.mod_pow2_bits_high by exact Hn. reflexivity. }
  rewrite <- N.lxor_lor by exact Hland. symmetry. apply N.add_nocarry_lxor. exact Hland.
Qed.

Section Pull.
Variable k : N.
Hypothesis Hk : 1 <= k <= 63.

Lemma mask_val : w64 (shl64 1 k + (two64 - 1)) = 2 ^ k - 1.
Proof.
  unfold shl64, w64. destruct (64 <=? k) eqn:E; [lia|].
  rewrite N.shiftl_1_l.
  assert (Hp : 2 ^ k < two64) by (rewrite two64_val; apply N.pow_lt_mono_r; lia).
  assert (H1 : 1 <= 2 ^ k) by (pose proof (N.pow_nonzero 2 k ltac:(discriminate)); lia).
  rewrite (N.mod_small (2 ^ k)) by exact Hp.
  replace (2 ^ k + (two64 - 1)) with ((2 ^ k - 1) + 1 * two64) by lia.
  rewrite N.mod_add by discriminate. apply N.mod_small. lia.
Qed.
Lemma land_mask x : N.land x (2 ^ k - 1) = x mod 2 ^ k.
Proof. rewrite <- N.pred_sub, <- N.ones_equiv. apply N.land_ones. Qed.
Lemma shr_val x : shr64 x k = x / 2 ^ k.
Proof. unfold shr64. destruct (64 <=? k) eqn:E; [lia|]. apply N.shiftr_div_pow2. Qed.
Lemma shl_hi h : h < 2 ^ k -> shl64 h (wrap 8 (64 + 256 - k)) = h * 2 ^ (64 - k).
Proof.
  intros Hh. unfold wrap. replace ((64 + 256 - k) mod 2 ^ 8) with (64 - k).
  2: { change (2 ^ 8) with 256. replace (64 + 256 - k) with ((64 - k) + 1 * 256) by lia. rewrite N.mod_add by discriminate. symmetry. apply N.mod_small. lia. }
  unfold shl64, w64. destruct (64 <=? 64 - k) eqn:E; [lia|]. rewrite N.shiftl_mul_pow2. apply N.mod_small.
  rewrite (pow_split k) by lia. apply N.mul_lt_mono_pos_r; [|exact Hh]. pose proof (N.pow_nonzero 2 (64 - k) ltac:(discriminate)). lia.
Qed.

Lemma div_lt x : x < two64 -> x / 2 ^ k < 2 ^ (64 - k).
Proof. intros Hx. apply N.div_lt_upper_bound; [apply N.pow_nonzero; discriminate|]. rewrite <- (pow_split k) by lia. exact Hx. Qed.

Lemma pull_rest_spec : forall rest prev, words_ok rest -> prev < 2 ^ (64 - k) ->
  V (pull_rest prev rest (2 ^ k - 1) k) = prev + 2 ^ (64 - k) * V rest /\ words_ok (pull_rest prev rest (2 ^ k - 1) k).
Proof.
  induction rest as [|x r IH]; intros prev Hok Hp; cbn [pull_rest V].
  - split; [lia|]. constructor; [|constructor]. rewrite (pow_split k) by lia.
    pose proof (N.pow_nonzero 2 k ltac:(discriminate)). nia.
  - inversion Hok as [|? ? Hx Hr]; subst.
    assert (Hp2 : 2 ^ (64 - k) < two64).
    { rewrite two64_val. apply N.pow_lt_mono_r; lia. }
    destruct (x =? 0) eqn:E0.
    + apply N.eqb_eq in E0. subst x. destruct (IH 0 Hr ltac:(pose proof (N.pow_nonzero 2 (64 - k) ltac:(discriminate)); lia)) as [IHv IHo].
      cbn [V]. rewrite IHv. split; [lia|]. constructor; [lia|exact IHo].
    + destruct (IH (shr64 x k) Hr ltac:(rewrite shr_val; apply div_lt; exact Hx)) as [IHv IHo].
      rewrite shr_val in IHv, IHo. cbn [V]. rewrite land_mask, shr_val, IHv.
      assert (Hm : x mod 2 ^ k < 2 ^ k) by (apply N.mod_upper_bound; apply N.pow_nonzero; discriminate).
      rewrite (shl_hi _ Hm), (lor_disjoint prev (x mod 2 ^ k) (64 - k) Hp).
      split.
      * pose proof (N.div_mod x (2 ^ k) ltac:(apply N.pow_nonzero; discriminate)) as Hdm.
        pose proof (pow_split k ltac:(lia)) as Hps. rewrite Hps. nia.
      * constructor; [|exact IHo]. rewrite (pow_split k) by lia.
        pose proof (N.pow_nonzero 2 (64 - k) ltac:(discriminate)). nia.
Qed.

(* Pull k on a container: the value is the low k bits of the whole number (k <= 32: the uint32 result holds them all),
   the container that remains is the whole number shifted right by k *)
Theorem pull_spec store : words_ok store -> store <> [] -> k <= 32 ->
  fst (pull store k) = V store mod 2 ^ k /\ V (snd (pull store k)) = V store / 2 ^ k /\ words_ok (snd (pull store k)).
Proof.
  intros Hok Hne Hk32. destruct store as [|s0 rest]; [contradiction|]. inversion Hok as [|? ? Hs Hr]; subst.
  unfold pull. rewrite mask_val. cbn [fst snd].
  destruct (pull_rest_spec rest (shr64 s0 k) Hr ltac:(rewrite shr_val; apply div_lt; exact Hs)) as [Hv Ho].
  assert (Hnz : 2 ^ k <> 0) by (apply N.pow_nonzero; discriminate).
  split; [|split; [|exact Ho]].
  - rewrite land_mask. cbn [V]. unfold wrap.
    assert (Hm : s0 mod 2 ^ k < 2 ^ 32).
    { eapply N.lt_le_trans; [apply N.mod_upper_bound; exact Hnz|]. apply N.pow_le_mono_r; [discriminate|exact Hk32]. }
    rewrite (N.mod_small _ _ Hm). pose proof (pow_split k ltac:(lia)) as Hps. rewrite Hps.
    replace (s0 + 2 ^ k * 2 ^ (64 - k) * V rest) with (s0 + (2 ^ (64 - k) * V rest) * 2 ^ k) by lia.
    rewrite N.mod_add by exact Hnz. reflexivity.
  - rewrite Hv, shr_val. cbn [V]. pose proof (pow_split k ltac:(lia)) as Hps. rewrite Hps.
    replace (s0 + 2 ^ k * 2 ^ (64 - k) * V rest) with (s0 + (2 ^ (64 - k) * V rest) * 2 ^ k) by lia.
    rewrite N.div_add by exact Hnz. reflexivity.
Qed.
End Pull.

(* consecutive pulls cut consecutive slices *)
Corollary pull_twice k1 k2 store : 1 <= k1 <= 32 -> 1 <= k2 <= 32 -> words_ok store -> store <> [] -> snd (pull store k1) <> [] ->
  fst (pull (snd (pull store k1)) k2) = (V store / 2 ^ k1) mod 2 ^ k2.
Proof.
  intros H1 H2 Hok Hne Hne2.
  destruct (pull_spec k1 ltac:(lia) store Hok Hne ltac:(lia)) as (_ & Hv & Ho).
  destruct (pull_spec k2 ltac:(lia) _ Ho Hne2 ltac:(lia)) as (Hf & _). rewrite Hf, Hv. reflexivity.
Qed.

(* ---- accumulator: one (message, field) entry fed with the observations of a k-bit wrapping counter *)
Definition W32 : N := 4294967296.
Lemma acc_mask k : 1 <= k <= 32 -> wrap 32 (wrap 32 (N.shiftl 1 k) + 4294967295) = 2 ^ k - 1.
Proof.
  intros Hk. unfold wrap. change (2 ^ 32) with W32. rewrite N.shiftl_1_l.
  destruct (N.eq_dec k 32) as [->|Hne]; [reflexivity|].
  assert (Hp : 2 ^ k < W32) by (change W32 with (2 ^ 32); apply N.pow_lt_mono_r; lia).
  assert (H1 : 1 <= 2 ^ k) by (pose proof (N.pow_nonzero 2 k ltac:(discriminate)); lia).
  rewrite (N.mod_small (2 ^ k)) by exact Hp.
  replace (2 ^ k + 4294967295) with ((2 ^ k - 1) + 1 * W32) by (unfold W32; lia).
  rewrite N.mod_add by discriminate. apply N.mod_small. lia.
Qed.

(* the step on a matching entry *)
Lemma acc_step m f last value v k r :
  acc_accumulate (mkacc m f last value :: r) m f v k =
  (mkacc m f v (wrap 32 (value + N.land (wrap 32 (v + 4294967296 - last)) (wrap 32 (wrap 32 (N.shiftl 1 k) + 4294967295)))) :: r,
   wrap 32 (value + N.land (wrap 32 (v + 4294967296 - last)) (wrap 32 (wrap 32 (N.shiftl 1 k) + 4294967295)))).
Proof. cbn [acc_accumulate a_mesg a_field a_last a_value]. rewrite !N.eqb_refl. reflexivity. Qed.

(* feed observations one by one; outputs *)
Fixpoint acc_run (a : list accval) (m f k : N) (obs : list N) : list N :=
  match obs with [] => [] | v :: r => let '(a', out) := acc_accumulate a m f v k in out :: acc_run a' m f k r end.
(* the counter being observed: true totals t+i1, t+i1+i2, ... *)
Fixpoint totals (t : N) (incs : list N) : list N :=
  match incs with [] => [] | i :: r => (t + i) :: totals (t + i) r end.

Lemma inc_recovered k t i : 1 <= k <= 32 -> i < 2 ^ k ->
  (((t + i) mod 2 ^ k + W32 - t mod 2 ^ k) mod W32) mod 2 ^ k = i.
Proof.
  intros Hk Hi.
  assert (Hnz : 2 ^ k <> 0) by (apply N.pow_nonzero; discriminate).
  assert (Hsplit : W32 = 2 ^ k * 2 ^ (32 - k)) by (change W32 with (2 ^ 32); rewrite <- N.pow_add_r; f_equal; lia).
  assert (Hq : 1 <= 2 ^ (32 - k)) by (pose proof (N.pow_nonzero 2 (32 - k) ltac:(discriminate)); lia).
  (* x mod W32 mod 2^k = x mod 2^k *)
  assert (Hmm : forall x, (x mod W32) mod 2 ^ k = x mod 2 ^ k).
  { intros x. rewrite Hsplit. rewrite N.mod_mul_r by (try exact Hnz; apply N.pow_nonzero; discriminate).
    rewrite N.mul_comm, N.mod_add by exact Hnz. apply N.mod_mod. exact Hnz. }
  rewrite Hmm.
  pose proof (N.div_mod (t + i) (2 ^ k) Hnz) as D1. pose proof (N.div_mod t (2 ^ k) Hnz) as D0.
  pose proof (N.mod_upper_bound (t + i) (2 ^ k) Hnz) as B1. pose proof (N.mod_upper_bound t (2 ^ k) Hnz) as B0.
  set (a := t mod 2 ^ k) in *. set (b := (t + i) mod 2 ^ k) in *.
  set (q0 := t / 2 ^ k) in *. set (q1 := (t + i) / 2 ^ k) in *. set (P := 2 ^ k) in *. set (Q := 2 ^ (32 - k)) in *.
  assert (Hcase : q1 = q0 \/ q1 = q0 + 1) by nia.
  destruct Hcase as [->| ->].
  - replace (b + W32 - a) with (i + Q * P) by nia. rewrite N.mod_add by exact Hnz. apply N.mod_small. exact Hi.
  - replace (b + W32 - a) with (i + (Q - 1) * P) by nia. rewrite N.mod_add by exact Hnz. apply N.mod_small. exact Hi.
Qed.

Theorem accumulate_spec m f k : 1 <= k <= 32 -> forall incs t r,
  Forall (fun i => i < 2 ^ k) incs ->
  acc_run (mkacc m f (t mod 2 ^ k) (t mod W32) :: r) m f k (map (fun x => x mod 2 ^ k) (totals t incs)) = map (fun x => x mod W32) (totals t incs).
Proof.
  intros Hk. induction incs as [|i incs IH]; intros t r Hall; cbn [totals map acc_run]; [reflexivity|].
  inversion Hall as [|? ? Hi Hr]; subst.
  rewrite acc_step. rewrite (acc_mask k Hk).
  assert (Hland : forall x, N.land x (2 ^ k - 1) = x mod 2 ^ k) by (intros x; rewrite <- N.pred_sub, <- N.ones_equiv; apply N.land_ones).
  rewrite Hland. unfold wrap. change (2 ^ 32) with W32. change 4294967296 with W32.
  rewrite (inc_recovered k t i Hk Hi).
  rewrite N.add_mod_idemp_l by discriminate. f_equal. apply IH. exact Hr.
Qed.

(* the first observation of a sequence starts the total at the observed value itself (Collect / first Accumulate) *)
Lemma acc_first m f v k : acc_accumulate [] m f v k = ([mkacc m f v v], v).
Proof. reflexivity. Qed.
