(* C03 for the raw decoder: the model of RawDecoder.Decode (Model/Raw.v) stops on every byte string -- every loop iteration
   consumes at least one byte, so the fuel the model runs on is never exhausted (code 98) -- and never reaches the branches that
   stand for "impossible" in the model (code 97: a successful one-byte read that is not one byte long).  Together with
   C03_raw_slices_fit (every slice taken from the fixed array is in bounds) this is panic- and hang-freedom of the raw decoder model. *)
From Coq Require Import NArith ZArith List Lia Bool ZifyN ZifyNat ZifyBool.
Import ListNotations.
From Fit Require Import Model.Raw Proofs.IntegrityModel Proofs.RawWire.
Open Scope N_scope.
#[local] Arguments N.add : simpl never.
#[local] Arguments N.mul : simpl never.
#[local] Arguments N.sub : simpl never.

Definition good (r : result) : Prop := let '(_, _, e) := r in e <> Some 97 /\ e <> Some 98.

Lemma read_full_err s k b e s' : read_full s k = (b, Some e, s') -> e = E_EOF \/ e = E_UnexpectedEOF.
Proof.
  unfold read_full. destruct (k =? 0); [discriminate|]. destruct (k <=? len (r_rest s)); [discriminate|].
  destruct (r_rest s); intros H; injection H as _ <- _; auto.
Qed.
Lemma good_eof s e : e = E_EOF \/ e = E_UnexpectedEOF -> good (finish s (Some e)).
Proof. intros [-> | ->]; unfold good, finish; split; discriminate. Qed.
Lemma read_full_shrink s k b s' : read_full s k = (b, None, s') -> (length (r_rest s') <= length (r_rest s))%nat.
Proof. intros H. destruct (read_full_take _ _ _ _ H) as (_ & R & _). rewrite R. unfold drop. rewrite skipn_length. apply Nat.le_sub_l. Qed.
Lemma read_full_one s b s' : read_full s 1 = (b, None, s') -> exists h, b = [h] /\ (length (r_rest s') < length (r_rest s))%nat.
Proof.
  intros H. destruct (read_full_take _ _ _ _ H) as (Hb & R & L & _). destruct (r_rest s) as [|h tl] eqn:E; [change (len (@nil N)) with 0 in L; lia|].
  exists h. split; [rewrite Hb; reflexivity|]. change (drop 1 (h :: tl)) with tl in R. rewrite R. cbn [length]. lia.
Qed.

Lemma raw_record_good s lens : match raw_record s lens with inl (s', _) => (length (r_rest s') < length (r_rest s))%nat | inr r => good r end.
Proof.
  unfold raw_record. destruct (read_full s 1) as [[hb e] s1] eqn:E1. destruct e as [e|]; [apply good_eof; eapply read_full_err; exact E1|].
  destruct (read_full_one _ _ _ E1) as (h & -> & L1).
  destruct (N.land h (N.lor MesgCompressedHeaderMask MesgDefinitionMask) =? MesgDefinitionMask).
  - destruct (read_full s1 5) as [[fixed e] s2] eqn:E2. destruct e as [e|]; [apply good_eof; eapply read_full_err; exact E2|].
    pose proof (read_full_shrink _ _ _ _ E2) as L2.
    destruct (read_full s2 (nth 4 fixed 0 * 3)) as [[fds e] s3] eqn:E3. destruct e as [e|]; [apply good_eof; eapply read_full_err; exact E3|].
    pose proof (read_full_shrink _ _ _ _ E3) as L3.
    destruct (N.land h DevDataMask =? DevDataMask).
    + destruct (read_full s3 1) as [[nd e] s4] eqn:E4. destruct e as [e|]; [apply good_eof; eapply read_full_err; exact E4|].
      pose proof (read_full_shrink _ _ _ _ E4) as L4.
      destruct (read_full s4 (nth 0 nd 0 * 3)) as [[dds e] s5] eqn:E5. destruct e as [e|]; [apply good_eof; eapply read_full_err; exact E5|].
      pose proof (read_full_shrink _ _ _ _ E5) as L5. cbn [emit r_rest]. lia.
    + cbn [emit r_rest]. lia.
  - destruct (nth (N.to_nat (local_mesg_num h)) lens 0 =? 0); [unfold good, finish; split; discriminate|].
    destruct (read_full s1 (nth (N.to_nat (local_mesg_num h)) lens 0 - 1)) as [[body e] s2] eqn:E2. destruct e as [e|]; [apply good_eof; eapply read_full_err; exact E2|].
    pose proof (read_full_shrink _ _ _ _ E2) as L2. cbn [emit r_rest]. lia.
Qed.

Lemma raw_records_good : forall fuel s lens pos ds, (length (r_rest s) < fuel)%nat ->
  match raw_records fuel s lens pos ds with inl s' => (length (r_rest s') <= length (r_rest s))%nat | inr r => good r end.
Proof.
  induction fuel as [|fuel IH]; intros s lens pos ds Hf; [lia|]. cbn [raw_records].
  destruct (ds <=? wrap 32 (r_n s - pos)); [lia|].
  pose proof (raw_record_good s lens) as Hr. destruct (raw_record s lens) as [[s' lens']|r]; [|exact Hr].
  specialize (IH s' lens' pos ds ltac:(lia)). destruct (raw_records fuel s' lens' pos ds); [lia|exact IH].
Qed.

Lemma raw_sequence_good s seq : match raw_sequence s seq with inl s' => (length (r_rest s') < length (r_rest s))%nat | inr r => good r end.
Proof.
  unfold raw_sequence. destruct (read_full s 1) as [[b0 e] s1] eqn:E1. destruct e as [e|].
  { destruct (negb (seq =? 0) && (e =? E_EOF)); [unfold good, finish; split; discriminate|apply good_eof; eapply read_full_err; exact E1]. }
  destruct (read_full_one _ _ _ E1) as (hs & -> & L1).
  destruct (negb ((hs =? 12) || (hs =? 14))); [unfold good, finish; split; discriminate|].
  destruct (read_full s1 (hs - 1)) as [[hr e] s2] eqn:E2. destruct e as [e|]; [apply good_eof; eapply read_full_err; exact E2|].
  pose proof (read_full_shrink _ _ _ _ E2) as L2.
  destruct (negb (list_N_eqb_raw (take 4 (drop 8 (hs :: hr))) DataTypeFIT)); [unfold good, finish; split; discriminate|].
  set (s2e := emit s2 RFHeader (hs :: hr)).
  pose proof (raw_records_good (S (length (r_rest s2e))) s2e (repeat 0 16) (r_n s2e) (le_word (take 4 (drop 4 (hs :: hr)))) ltac:(lia)) as Hr.
  destruct (raw_records _ s2e _ _ _) as [s3|r]; [|exact Hr].
  destruct (read_full s3 2) as [[c e] s4] eqn:E4. destruct e as [e|]; [apply good_eof; eapply read_full_err; exact E4|].
  pose proof (read_full_shrink _ _ _ _ E4) as L4. cbn [emit r_rest s2e] in *. lia.
Qed.

Lemma raw_loop_good : forall fuel s seq, (length (r_rest s) < fuel)%nat -> good (raw_loop fuel s seq).
Proof.
  induction fuel as [|fuel IH]; intros s seq Hf; [lia|]. cbn [raw_loop].
  pose proof (raw_sequence_good s seq) as Hs. destruct (raw_sequence s seq) as [s'|r]; [apply IH; lia|exact Hs].
Qed.

Theorem raw_decode_total bs : good (raw_decode bs).
Proof. unfold raw_decode. apply raw_loop_good. cbn. lia. Qed.
