(* C11 on Model/Writer.v: if any Write / Seek / WriteAt of the destination fails during an Encode call (batch) or a stream
   sequence, that call reports an error -- for every writer kind, every buffer size, every failure index and every number of
   bytes taken by the failing operation.  Contrapositive form: a call that reports success consumed no failing operation. *)
From Coq Require Import NArith ZArith List Lia Bool ZifyN ZifyNat ZifyBool.
Import ListNotations.
From Fit Require Import Model.Writer.
Open Scope N_scope.

(* the failing operation index lies in [ops before, ops after) *)
Definition consumed_d (d d' : dest) : Prop :=
  exists f, d_fault d = Some f /\ d_ops d <= f_at f < d_ops d'.
(* a step that reported success: same fault plan, operation counter only grows, the failing index was not consumed *)
Definition clean_d (d d' : dest) : Prop := d_fault d' = d_fault d /\ d_ops d <= d_ops d' /\ ~ consumed_d d d'.
Definition clean (w w' : wst) : Prop := clean_d (w_dest w) (w_dest w').

Lemma clean_d_refl d : clean_d d d.
Proof. unfold clean_d, consumed_d. repeat split; try lia. intros (f & _ & H). lia. Qed.
Lemma clean_d_trans a b c : clean_d a b -> clean_d b c -> clean_d a c.
Proof.
  intros (F1 & O1 & N1) (F2 & O2 & N2). unfold clean_d. split; [congruence|]. split; [lia|].
  intros (f & Hf & Hr). destruct (N.lt_ge_cases (f_at f) (d_ops b)) as [Hlt|Hge].
  - apply N1. exists f. split; [exact Hf|lia].
  - apply N2. exists f. split; [congruence|lia].
Qed.

Lemma u_write_clean d p n d' : u_write d p = (n, false, d') -> clean_d d d'.
Proof.
  unfold u_write, fails. destruct (d_fault d) as [f|] eqn:Ef.
  - destruct (f_at f =? d_ops d) eqn:E; [discriminate|]. intros H. injection H as _ <-. unfold clean_d, consumed_d. cbn. rewrite Ef.
    repeat split; try lia. intros (f' & Hf' & Hr). injection Hf' as <-. lia.
  - intros H. injection H as _ <-. unfold clean_d, consumed_d. cbn. rewrite Ef. repeat split; try lia. intros (f' & Hf' & _). discriminate.
Qed.
Lemma u_seek_clean d off d' : u_seek d off = (false, d') -> clean_d d d'.
Proof.
  unfold u_seek, fails. destruct (d_fault d) as [f|] eqn:Ef.
  - destruct (f_at f =? d_ops d) eqn:E; [discriminate|]. intros H. injection H as <-. unfold clean_d, consumed_d. cbn. rewrite Ef.
    repeat split; try lia. intros (f' & Hf' & Hr). injection Hf' as <-. lia.
  - intros H. injection H as <-. unfold clean_d, consumed_d. cbn. rewrite Ef. repeat split; try lia. intros (f' & Hf' & _). discriminate.
Qed.
Lemma u_writeat_clean d p off d' : u_writeat d p off = (false, d') -> clean_d d d'.
Proof.
  unfold u_writeat, fails. destruct (d_fault d) as [f|] eqn:Ef.
  - destruct (f_at f =? d_ops d) eqn:E; [discriminate|]. intros H. injection H as <-. unfold clean_d, consumed_d. cbn. rewrite Ef.
    repeat split; try lia. intros (f' & Hf' & Hr). injection Hf' as <-. lia.
  - intros H. injection H as <-. unfold clean_d, consumed_d. cbn. rewrite Ef. repeat split; try lia. intros (f' & Hf' & _). discriminate.
Qed.

Lemma clean_refl w : clean w w. Proof. apply clean_d_refl. Qed.
Lemma clean_trans a b c : clean a b -> clean b c -> clean a c. Proof. apply clean_d_trans. Qed.

Lemma b_flush_clean w w' : b_flush w = (false, w') -> clean w w' /\ w_err w' = false.
Proof.
  unfold b_flush. destruct (w_err w) eqn:Ee; [discriminate|].
  destruct (w_buf w) as [|x r].
  - intros H. injection H as <-. split; [apply clean_refl|exact Ee].
  - destruct (u_write (w_dest w) (x :: r)) as [[n f] d] eqn:Eu. destruct f; [discriminate|].
    intros H. injection H as <-. split; [exact (u_write_clean _ _ _ _ Eu)|reflexivity].
Qed.

(* inside bufio.Write an error of the destination is never lost: once the sticky error is set the call returns it *)
Lemma b_write_loop_err : forall fuel w p nn, w_err w = true -> snd (fst (b_write_loop fuel w p nn)) = true.
Proof. intros fuel w p nn He. destruct fuel; cbn [b_write_loop]; rewrite He, andb_false_r; reflexivity. Qed.

Lemma b_write_loop_clean : forall fuel w p nn n w', w_err w = false -> b_write_loop fuel w p nn = (n, false, w') -> clean w w' /\ w_err w' = false.
Proof.
  induction fuel as [|fuel IH]; intros w p nn n w' He; cbn [b_write_loop]; rewrite He; cbn [negb]; rewrite andb_true_r.
  - destruct (_ <? _); cbn [andb]; [discriminate|]. intros H. injection H as _ <-. split; [apply clean_d_refl|reflexivity].
  - destruct (_ <? _); cbn [andb].
    + destruct (w_buf w) as [|x r] eqn:Eb0.
      * destruct (u_write (w_dest w) p) as [[k f] d] eqn:Eu. destruct f.
        -- intros H. pose proof (b_write_loop_err fuel (set_buf w [] true d) (drop k p) (nn + k) eq_refl) as Herr. rewrite H in Herr. discriminate.
        -- intros H. destruct (IH (set_buf w [] false d) _ _ _ _ eq_refl H) as [C E]. split; [|exact E].
           eapply clean_trans; [|exact C]. exact (u_write_clean _ _ _ _ Eu).
      * destruct (b_flush _) as [e1 w2] eqn:Ef. intros H.
        destruct e1.
        -- (* the flush failed: sticky error set or already set *)
           assert (He2 : w_err w2 = true).
           { revert Ef. unfold b_flush. cbn [w_err set_buf w_buf w_dest app]. try rewrite He.
             destruct (u_write _ _) as [[k f] d]. destruct f; intros Hf; [injection Hf as <-; reflexivity|discriminate]. }
           pose proof (b_write_loop_err fuel w2 (drop (w_size w - len (x :: r)) p) (nn + (w_size w - len (x :: r))) He2) as Herr.
           rewrite H in Herr. discriminate.
        -- destruct (b_flush_clean _ _ Ef) as [C1 E1]. destruct (IH _ _ _ _ _ E1 H) as [C2 E2]. split; [|exact E2].
           eapply clean_trans; [|exact C2]. exact C1.
    + intros H. injection H as _ <-. split; [apply clean_d_refl|reflexivity].
Qed.

(* e.w operations *)
Definition noerr (w : wst) : Prop := w_err w = false.
Lemma ew_write_clean w p n w' : noerr w -> ew_write w p = (n, false, w') -> clean w w' /\ noerr w'.
Proof.
  intros He. unfold ew_write. destruct (w_size w =? 0).
  - destruct (u_write (w_dest w) p) as [[k f] d] eqn:Eu. intros H. injection H as _ -> <-. split; [exact (u_write_clean _ _ _ _ Eu)|exact He].
  - unfold b_write. apply b_write_loop_clean. exact He.
Qed.
Lemma ew_flush_clean w w' : noerr w -> ew_flush w = (false, w') -> clean w w' /\ noerr w'.
Proof.
  intros He. unfold ew_flush. destruct (w_size w =? 0); [intros H; injection H as <-; split; [apply clean_refl|exact He]|apply b_flush_clean].
Qed.
Lemma ew_seek_clean w off w' : noerr w -> ew_seek w off = (false, w') -> clean w w' /\ noerr w'.
Proof.
  intros He. unfold ew_seek. destruct (ew_flush w) as [e w1] eqn:Ef. destruct e; [discriminate|].
  destruct (ew_flush_clean _ _ He Ef) as [C1 E1]. destruct (u_seek (w_dest w1) off) as [e d] eqn:Es. intros H. injection H as -> <-.
  split; [eapply clean_trans; [exact C1|exact (u_seek_clean _ _ _ Es)]|exact E1].
Qed.
Lemma ew_writeat_clean w p off w' : noerr w -> ew_writeat w p off = (false, w') -> clean w w' /\ noerr w'.
Proof.
  intros He. unfold ew_writeat. destruct (ew_flush w) as [e w1] eqn:Ef. destruct e; [discriminate|].
  destruct (ew_flush_clean _ _ He Ef) as [C1 E1]. destruct (u_writeat (w_dest w1) p off) as [e d] eqn:Es. intros H. injection H as -> <-.
  split; [eapply clean_trans; [exact C1|exact (u_writeat_clean _ _ _ _ Es)]|exact E1].
Qed.

Lemma e_write_clean w p w' : noerr w -> e_write w p = (false, w') -> clean w w' /\ noerr w'.
Proof.
  intros He. unfold e_write. destruct (ew_write w p) as [[n f] w1] eqn:E. intros H. injection H as -> <-.
  destruct (ew_write_clean _ _ _ _ He E) as [C E1]. split; [exact C|exact E1].
Qed.
Lemma e_writes_clean : forall ps w w', noerr w -> e_writes w ps = (false, w') -> clean w w' /\ noerr w'.
Proof.
  induction ps as [|p ps IH]; intros w w' He; cbn [e_writes].
  - intros H. injection H as <-. split; [apply clean_refl|exact He].
  - destruct (e_write w p) as [f w1] eqn:E. destruct f; [discriminate|]. intros H.
    destruct (e_write_clean _ _ _ He E) as [C1 E1]. destruct (IH _ _ E1 H) as [C2 E2]. split; [eapply clean_trans; eassumption|exact E2].
Qed.
Lemma update_header_clean w h w' : noerr w -> update_header w h = (false, w') -> clean w w' /\ noerr w'.
Proof.
  intros He. unfold update_header. destruct (ew_seeker w).
  - destruct (ew_seek w _) as [e w1] eqn:E1. destruct e; [discriminate|]. destruct (ew_seek_clean _ _ _ He E1) as [C1 N1].
    destruct (ew_write w1 h) as [[n f] w2] eqn:E2. destruct f; [discriminate|]. destruct (ew_write_clean _ _ _ _ N1 E2) as [C2 N2].
    intros H. destruct (ew_seek_clean _ _ _ N2 H) as [C3 N3]. split; [|exact N3]. eapply clean_trans; [exact C1|]. eapply clean_trans; eassumption.
  - destruct (ew_writerat w); [apply ew_writeat_clean; exact He|discriminate].
Qed.

(* ---- the statement: success means no failing operation was consumed *)
Theorem encode_one_success_is_clean w p ds w' : noerr w -> encode_one w p ds = (false, w') -> clean w w' /\ noerr w'.
Proof.
  intros He. unfold encode_one.
  set (w0 := set_n w (w_n w) (w_n w)). assert (H0 : noerr w0) by exact He. change (clean w w') with (clean w0 w').
  destruct (ew_seeker w0 || ew_writerat w0)%bool.
  - destruct (e_writes w0 _) as [f w1] eqn:E1. destruct f; [discriminate|]. destruct (e_writes_clean _ _ _ H0 E1) as [C1 N1].
    destruct (ds =? p_datasize p).
    + intros H. destruct (ew_flush_clean _ _ N1 H) as [C2 N2]. split; [eapply clean_trans; [exact C1|exact C2]|exact N2].
    + destruct (update_header w1 _) as [f w2] eqn:E2. destruct f; [discriminate|]. destruct (update_header_clean _ _ _ N1 E2) as [C2 N2].
      intros H. destruct (ew_flush_clean _ _ N2 H) as [C3 N3]. split; [|exact N3]. eapply clean_trans; [exact C1|]. eapply clean_trans; eassumption.
  - destruct (e_writes w0 _) as [f w1] eqn:E1. destruct f; [discriminate|]. destruct (e_writes_clean _ _ _ H0 E1) as [C1 N1].
    intros H. destruct (ew_flush_clean _ _ N1 H) as [C2 N2]. split; [eapply clean_trans; [exact C1|exact C2]|exact N2].
Qed.

Theorem stream_one_success_is_clean w p prev w' : noerr w -> stream_one w p prev = (false, w') -> clean w w' /\ noerr w'.
Proof.
  intros He. unfold stream_one.
  set (w0 := set_n w (w_n w) (w_n w)). assert (H0 : noerr w0) by exact He. change (clean w w') with (clean w0 w').
  destruct (e_writes w0 _) as [f w1] eqn:E1. destruct f; [discriminate|]. destruct (e_writes_clean _ _ _ H0 E1) as [C1 N1].
  destruct (e_write w1 _) as [f w2] eqn:E2. destruct f; [discriminate|]. destruct (e_write_clean _ _ _ N1 E2) as [C2 N2].
  destruct (prev =? p_datasize p).
  - intros H. destruct (ew_flush_clean _ _ N2 H) as [C3 N3]. split; [|exact N3]. eapply clean_trans; [exact C1|]. eapply clean_trans; eassumption.
  - destruct (update_header w2 _) as [f w3] eqn:E3. destruct f; [discriminate|]. destruct (update_header_clean _ _ _ N2 E3) as [C3 N3].
    intros H. destruct (ew_flush_clean _ _ N3 H) as [C4 N4]. split; [|exact N4].
    eapply clean_trans; [exact C1|]. eapply clean_trans; [exact C2|]. eapply clean_trans; eassumption.
Qed.

(* chains: a chain all of whose calls report success consumed no failing operation *)
Theorem encode_chain_success_is_clean : forall ps w acc errs w', noerr w -> encode_chain w ps acc = (errs, w') ->
  ~ In true errs -> clean w w'.
Proof.
  induction ps as [|[p ds] ps IH]; intros w acc errs w' He; cbn [encode_chain].
  - intros H _. injection H as _ <-. apply clean_refl.
  - destruct (encode_one w p ds) as [f w1] eqn:E1. destruct f.
    + intros H Hn. injection H as <- _. exfalso. apply Hn. apply (proj1 (in_rev (true :: acc) true)). left. reflexivity.
    + destruct (encode_one_success_is_clean _ _ _ _ He E1) as [C1 N1]. intros H Hn.
      eapply clean_trans; [exact C1|]. eapply IH; eassumption.
Qed.
Theorem stream_chain_success_is_clean : forall ps w prev acc errs w', noerr w -> stream_chain w ps prev acc = (errs, w') ->
  ~ In true errs -> clean w w'.
Proof.
  induction ps as [|p ps IH]; intros w prev acc errs w' He; cbn [stream_chain].
  - intros H _. injection H as _ <-. apply clean_refl.
  - destruct (stream_one w p prev) as [f w1] eqn:E1. destruct f.
    + intros H Hn. injection H as <- _. exfalso. apply Hn. apply (proj1 (in_rev (true :: acc) true)). left. reflexivity.
    + destruct (stream_one_success_is_clean _ _ _ _ He E1) as [C1 N1]. intros H Hn.
      eapply clean_trans; [exact C1|]. eapply IH; eassumption.
Qed.

(* read the other way: if the failing operation index was reached, some call of the chain reported an error *)
Corollary fault_reached_is_reported k size pre f ps errs w' :
  encode_chain (wst_new k size pre (Some f)) ps [] = (errs, w') -> f_at f < d_ops (w_dest w') -> In true errs.
Proof.
  intros E Hr. destruct (in_dec Bool.bool_dec true errs) as [Hin|Hn]; [exact Hin|]. exfalso.
  assert (He : noerr (wst_new k size pre (Some f))) by reflexivity.
  destruct (encode_chain_success_is_clean _ _ _ _ _ He E Hn) as (_ & _ & Hc). apply Hc.
  exists f. split; [reflexivity|]. cbn. lia.
Qed.
Corollary fault_reached_is_reported_stream k size pre f ps errs w' :
  stream_chain (wst_new k size pre (Some f)) ps 0 [] = (errs, w') -> f_at f < d_ops (w_dest w') -> In true errs.
Proof.
  intros E Hr. destruct (in_dec Bool.bool_dec true errs) as [Hin|Hn]; [exact Hin|]. exfalso.
  assert (He : noerr (wst_new k size pre (Some f))) by reflexivity.
  destruct (stream_chain_success_is_clean _ _ _ _ _ _ He E Hn) as (_ & _ & Hc). apply Hc.
  exists f. split; [reflexivity|]. cbn. lia.
Qed.
