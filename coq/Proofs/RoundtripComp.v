(* C01, sequence level, compressed-timestamp headers: the encoder moves the timestamp of a message into the record header when
   it lies within 32 s after the last written one (Model/Encoder.v compress_timestamp); the decoder rebuilds it from its clock
   and puts the field in front of the others.  For every list of messages whose fields round-trip at the value level and that
   carry at most one timestamp field, decoding what the encoder wrote yields the same messages in order, each with its fields
   either as written or with the timestamp field moved to the front -- carrying the ORIGINAL timestamp: this joins the
   sequence-level argument of Proofs/RoundtripSeq.v (LRU vs definition table, framing) with the clock argument of
   Proofs/TimestampProofs.v (encoder's last written timestamp = decoder's clock). *)
From Coq Require Import NArith ZArith List Lia Bool ZifyN ZifyNat ZifyBool.
Import ListNotations.
From Fit Require Import Model.Encoder Proofs.ValueProofs Proofs.EncoderProofs Proofs.AcceptProofs Proofs.IntegrityModel Proofs.GrammarProofs
  Proofs.TimestampProofs Proofs.DecoderWire Proofs.RoundtripSeq.
Open Scope N_scope.
#[local] Arguments N.add : simpl never.
#[local] Arguments N.mul : simpl never.
#[local] Arguments N.sub : simpl never.

(* ---------------------------------------------------------------- the decoder's clock after a list of decoded fields *)
Definition clk (s : dstate) : N * N := (s_ts s, s_lto s).
Definition ts_of_field (f : field) : option N :=
  match f_value f with VNum TU32 t => if f_num f =? FieldNumTimestamp then Some t else None | _ => None end.
Definition clock_after (fs : list field) (ck : N * N) : N * N :=
  fold_left (fun ck f => match ts_of_field f with Some t => clock_full t | None => ck end) fs ck.

Lemma clock_after_app a b ck : clock_after (a ++ b) ck = clock_after b (clock_after a ck).
Proof. unfold clock_after. apply fold_left_app. Qed.

(* forward: whatever is decoded, the clock follows the decoded timestamp fields *)
Lemma read_n_clk c s n : wpost (read_n c s n) (fun r => clk (snd r) = clk s /\ s_msgs (snd r) = s_msgs s).
Proof. unfold read_n, read_raw. destruct (n <=? s_buf s); [split; reflexivity|]. destruct (n <=? _); [split; reflexivity|exact I]. Qed.
Lemma read_value_clk c s sz arch base ptype arr ovr : wpost (read_value c s sz arch base ptype arr ovr) (fun r => clk (snd r) = clk s /\ s_msgs (snd r) = s_msgs s).
Proof.
  unfold read_value. eapply wpost_bind; [apply read_n_clk|]. intros [b s1] H. cbn [snd] in H. cbv beta iota zeta.
  eapply wpost_bind; [apply wpost_any|]. intros v _. cbn. exact H.
Qed.

Lemma decode_fields_clock c arch mn : c_expand c = false -> forall fds s fs0,
  wpost (decode_fields c s arch mn fds fs0) (fun r => exists added, fst r = fs0 ++ added /\ clk (snd r) = clock_after added (clk s) /\ s_msgs (snd r) = s_msgs s).
Proof.
  intros Hex. induction fds as [|fd rest IH]; intros s fs0; cbn [decode_fields].
  - cbn. exists []. rewrite app_nil_r. split; [reflexivity|split; reflexivity].
  - eapply wpost_bind; [apply wpost_any|]. intros [f ovr] _. cbv beta iota zeta.
    destruct (fd_size fd =? 0); [apply IH|].
    destruct (if fd_size fd <? bt_size (f_base f) then (bt_uint8, pt_Uint8, true) else (f_base f, fb_ptype (f_fb f), fb_array (f_fb f))) as [[rb rp] ra].
    eapply wpost_bind; [apply read_value_clk|]. intros [v s1] [H1 M1]. cbn [snd] in H1, M1. cbv beta iota zeta. rewrite Hex, andb_false_r.
    set (v2 := if negb (rb =? f_base f) then convert_bytes_to_value (slice_u8 v) arch (f_base f) else v).
    eapply wpost_weaken; [apply IH|]. intros r (added & Ha & Hc & Hm). exists (set_value f v2 :: added).
    split; [rewrite Ha, <- app_assoc; reflexivity|].
    split; [|rewrite Hm; destruct v2 as [|ty x|ty l|sv|ss]; try exact M1; destruct ty; try exact M1; destruct (f_num f =? FieldNumTimestamp); exact M1].
    rewrite Hc.
    match goal with |- clock_after added (clk ?X) = _ =>
      assert (Hs : clk X = match ts_of_field (set_value f v2) with Some t => clock_full t | None => clk s end) end.
    { unfold ts_of_field. cbn [set_value f_value]. change (f_num (set_value f v2)) with (f_num f).
      destruct v2 as [|ty x|ty l|sv|ss]; try exact H1. destruct ty; try exact H1. destruct (f_num f =? FieldNumTimestamp); [reflexivity|exact H1]. }
    rewrite Hs. reflexivity.
Qed.

(* ---------------------------------------------------------------- messages with at most one timestamp field *)
Definition is_ts (f : field) : bool := f_num f =? FieldNumTimestamp.
Definition ts_unique (fs : list field) : Prop := (length (filter is_ts fs) <= 1)%nat.

Lemma clock_after_none fs ck : filter is_ts fs = [] -> clock_after fs ck = ck.
Proof.
  revert ck. induction fs as [|f fs IH]; intros ck H; [reflexivity|]. cbn [filter] in H. destruct (is_ts f) eqn:E; [discriminate|].
  cbn [clock_after fold_left]. unfold ts_of_field. unfold is_ts in E. rewrite E. destruct (f_value f) as [|[] ?| | |]; apply IH; exact H.
Qed.

Lemma ts_field_first fs : ts_unique fs ->
  match field_by_num fs FieldNumTimestamp with
  | Some f => filter is_ts (remove_first_num fs FieldNumTimestamp) = [] /\
              forall ck, clock_after fs ck = match ts_of_field f with Some t => clock_full t | None => ck end
  | None => filter is_ts fs = []
  end.
Proof.
  unfold ts_unique. induction fs as [|f fs IH]; intros H; [reflexivity|]. cbn [field_by_num remove_first_num filter] in *. unfold is_ts at 1 in H. fold (is_ts f) in H.
  destruct (f_num f =? FieldNumTimestamp) eqn:E.
  - change (is_ts f) with (f_num f =? FieldNumTimestamp) in H. rewrite E in H. cbn [length] in H.
    assert (Hn : filter is_ts fs = []) by (destruct (filter is_ts fs); [reflexivity|cbn [length] in H; lia]).
    split; [exact Hn|]. intros ck. cbn [clock_after fold_left]. apply clock_after_none. exact Hn.
  - change (is_ts f) with (f_num f =? FieldNumTimestamp) in H. rewrite E in H. specialize (IH H).
    destruct (field_by_num fs FieldNumTimestamp) as [g|].
    + destruct IH as [I1 I2]. split; [cbn [filter]; unfold is_ts at 1; rewrite E; exact I1|].
      intros ck. cbn [clock_after fold_left]. unfold ts_of_field at 2. rewrite E. destruct (f_value f) as [|[] ?| | |]; apply I2.
    + unfold is_ts at 1. rewrite E. exact IH.
Qed.

(* ---------------------------------------------------------------- forward: the clock after one record *)
Lemma decode_dev_fields_clk c arch : forall dds s out, wpost (decode_dev_fields c s arch dds out) (fun r => clk (snd r) = clk s /\ s_msgs (snd r) = s_msgs s).
Proof.
  induction dds as [|dd rest IH]; intros s out; cbn [decode_dev_fields]; [split; reflexivity|].
  destruct (find_fdesc (s_fdescs s) (dd_idx dd) (dd_num dd)) as [fdsc|].
  - destruct (negb (bt_valid (fdx_base fdsc))); [exact I|].
    eapply wpost_bind; [apply wpost_any|]. intros dv _. destruct (dd_size dd =? 0); [apply IH|].
    destruct (if dd_size dd <? bt_size (fdx_base fdsc) then (bt_uint8, pt_Uint8, true) else (fdx_base fdsc, N.land (fdx_base fdsc) BaseTypeNumMask, dv)) as [[rb rp] ra].
    eapply wpost_bind; [apply read_value_clk|]. intros [v s1] [H1 M1]. cbn [snd] in H1, M1. cbv beta iota zeta.
    eapply wpost_weaken; [apply IH|]. intros r [Hr Mr]. rewrite Hr, Mr. split; assumption.
  - eapply wpost_bind; [apply read_n_clk|]. intros [b s1] [H1 M1]. cbn [snd] in H1, M1. cbv beta iota zeta.
    eapply wpost_weaken; [apply IH|]. intros r [Hr Mr]. rewrite Hr, Mr. split; assumption.
Qed.

Lemma decode_data_body_clock c s header d fs0 : c_expand c = false -> md_devs d = [] ->
  wpost (decode_data_body c s header d fs0)
        (fun s' => exists added, s_msgs s' = mkmsg header (md_num d) (fs0 ++ added) [] :: s_msgs s /\ clk s' = clock_after added (clk s)).
Proof.
  intros Hex Hnd. unfold decode_data_body.
  eapply wpost_bind; [apply (decode_fields_clock c _ _ Hex)|]. intros [fs s1] (added & Ha & Hc & Hm1). cbn [fst snd] in *. cbv beta iota zeta. rewrite Hex, Hnd. cbn [fst snd bind].
  set (s3 := match s_fileid s1 with None => if md_num d =? mesgnum_FileId then upd_fileid s1 (Some (mkmsg header (md_num d) fs [])) else s1 | Some _ => s1 end).
  assert (H3 : clk s3 = clk s1 /\ s_msgs s3 = s_msgs s1) by (unfold s3; destruct (s_fileid s1); [split; reflexivity|]; destruct (md_num d =? mesgnum_FileId); split; reflexivity).
  set (s4 := if md_num d =? mesgnum_DeveloperDataId then upd_dev s3 (s_devidx s3 ++ [u8_of (field_value_by_num fs fn_DeveloperDataId_DeveloperDataIndex)]) (s_fdescs s3)
             else if md_num d =? mesgnum_FieldDescription then upd_dev s3 (s_devidx s3) (s_fdescs s3 ++ [new_field_description fs]) else s3).
  assert (H4 : clk s4 = clk s3 /\ s_msgs s4 = s_msgs s3).
  { unfold s4. destruct (md_num d =? mesgnum_DeveloperDataId); [split; reflexivity|]. destruct (md_num d =? mesgnum_FieldDescription); split; reflexivity. }
  clearbody s3 s4. cbn. exists added. destruct H3 as [H3 M3]. destruct H4 as [H4 M4].
  split; [rewrite M4, M3, Hm1, Ha; reflexivity|]. change (clk (push_msg s4 _)) with (clk s4). rewrite H4, H3. exact Hc.
Qed.

Lemma wpost_conj {A} (r : outcome A) (P Q : A -> Prop) : wpost r P -> wpost r Q -> wpost r (fun a => P a /\ Q a).
Proof. destruct r; cbn; auto. Qed.
Lemma read_n_defs c s n : wpost (read_n c s n) (fun r => s_defs (snd r) = s_defs s).
Proof. unfold read_n, read_raw. destruct (n <=? s_buf s); [reflexivity|]. destruct (n <=? _); [reflexivity|exact I]. Qed.

Definition rec_clock (s s' : dstate) : Prop :=
  (s_msgs s' = s_msgs s /\ clk s' = clk s) \/
  exists header num added fs0, s_msgs s' = mkmsg header num (fs0 ++ added) [] :: s_msgs s /\
    ((has header MesgCompressedHeaderMask = false /\ fs0 = [] /\ clk s' = clock_after added (clk s)) \/
     (has header MesgCompressedHeaderMask = true /\
      let ck := clock_compressed (s_ts s) (s_lto s) header in
      exists tsf, fs0 = [tsf] /\ f_value tsf = VNum TU32 (fst ck) /\ clk s' = clock_after added ck)).

Lemma decode_message_clock c s : c_expand c = false -> (forall i d, nth i (s_defs s) None = Some d -> md_devs d = []) ->
  wpost (decode_message c s) (rec_clock s).
Proof.
  intros Hex Hnd. unfold decode_message.
  eapply wpost_bind; [apply wpost_conj; [apply read_n_clk|apply read_n_defs]|]. intros [b s1] [[H1 M1] D1]. cbn [fst snd] in *. cbv beta iota zeta.
  eapply wpost_bind; [apply wpost_any|]. intros header _.
  destruct (N.land header (N.lor MesgCompressedHeaderMask MesgDefinitionMask) =? MesgDefinitionMask).
  - (* definition: reads only *)
    unfold decode_definition.
    eapply wpost_bind; [apply read_n_clk|]. intros [b2 s2] [H2 M2]. cbn [fst snd] in *. cbv beta iota zeta.
    do 4 (eapply wpost_bind; [apply wpost_any|]; intros ? _).
    eapply wpost_bind; [apply read_n_clk|]. intros [b3 s3] [H3 M3]. cbn [fst snd] in *. cbv beta iota zeta.
    eapply wpost_bind; [apply wpost_any|]. intros fds _.
    eapply (wpost_bind _ _ (fun r2 => clk (snd r2) = clk s3 /\ s_msgs (snd r2) = s_msgs s3)).
    + destruct (has header DevDataMask); [|cbn; split; reflexivity].
      eapply wpost_bind; [apply read_n_clk|]. intros [b4 s4] [H4 M4]. cbn [fst snd] in *. cbv beta iota zeta.
      eapply wpost_bind; [apply wpost_any|]. intros m _.
      eapply wpost_bind; [apply read_n_clk|]. intros [b5 s5] [H5 M5]. cbn [fst snd] in *. cbv beta iota zeta.
      cbn. split; congruence.
    + intros [dds s6] [H6 M6]. cbn [fst snd] in *. cbn. left. split; [cbn; congruence|].
      change (clk (push_event (upd_defs s6 _) _)) with (clk s6). congruence.
  - unfold decode_data. cbv zeta. rewrite D1.
    destruct (nth _ (s_defs s) None) as [d|] eqn:En; [|exact I].
    pose proof (Hnd _ _ En) as Hd0.
    destruct (has header MesgCompressedHeaderMask) eqn:Ecomp.
    + set (ck := clock_compressed (s_ts s1) (s_lto s1) header).
      eapply wpost_weaken; [apply (decode_data_body_clock c _ header d _ Hex Hd0)|].
      intros s' (added & Hm & Hc). right. exists header, (md_num d), added. eexists. split; [rewrite Hm; cbn [upd_time s_msgs]; rewrite M1; reflexivity|].
      right. split; [exact Ecomp|]. cbv zeta. eexists. split; [reflexivity|].
      assert (Hck : clock_compressed (s_ts s) (s_lto s) header = ck) by (unfold ck; injection H1 as -> ->; reflexivity).
      rewrite Hck. split; [reflexivity|]. rewrite Hc. f_equal; unfold clk; cbn [upd_time s_ts s_lto]; destruct ck; reflexivity.
    + eapply wpost_weaken; [apply (decode_data_body_clock c _ header d _ Hex Hd0)|].
      intros s' (added & Hm & Hc). right. exists header, (md_num d), added, []. split; [rewrite Hm, M1; reflexivity|].
      left. split; [exact Ecomp|]. split; [reflexivity|]. rewrite Hc, H1. reflexivity.
Qed.

(* ---------------------------------------------------------------- a data record with a compressed-timestamp header *)
Definition comp_hdr (t i : N) : N := N.lor (N.lor MesgCompressedHeaderMask t) (wrap 8 (N.shiftl i CompressedBitShift)).
Definition comp_hdr_ok (t i : N) : bool :=
  let hb := comp_hdr t i in
  negb (N.land hb (N.lor MesgCompressedHeaderMask MesgDefinitionMask) =? MesgDefinitionMask) && has hb MesgCompressedHeaderMask
  && (N.land (N.shiftr (N.land hb CompressedLocalMesgNumMask) CompressedBitShift) LocalMesgNumMask =? i)
  && (N.land hb CompressedTimeMask =? N.land (N.lor MesgCompressedHeaderMask t) CompressedTimeMask).
Lemma comp_hdr_sweep : forallb (fun t => forallb (comp_hdr_ok t) (nrange 4 0)) (nrange 32 0) = true. Proof. vm_compute. reflexivity. Qed.
Lemma comp_hdr_facts t i : t < 32 -> i < 4 -> comp_hdr_ok t i = true.
Proof.
  intros Ht Hi. pose proof comp_hdr_sweep as Hs. rewrite forallb_forall in Hs. specialize (Hs t (in_nrange 32 0 t ltac:(lia))).
  rewrite forallb_forall in Hs. exact (Hs i (in_nrange 4 0 i ltac:(lia))).
Qed.

Lemma comp_record_rt dc big m t i body tail s fbts : c_expand dc = false -> 765 <= c_bufsize dc -> msg_rt big m -> t < 32 -> i < 4 ->
  marshal_values big (map f_value (m_fields m)) = Some body -> s_rest s = (comp_hdr t i :: body) ++ tail -> bufok s ->
  nth (N.to_nat i) (s_defs s) None = Some (dwith i (new_definition big m)) ->
  create_field (m_num m) FieldNumTimestamp = mkfield fbts true VInvalid false ->
  exists s', decode_message dc s = Ok s' /\ rec_post (1 + len body) s s' /\ s_rest s' = tail /\ s_defs s' = s_defs s
             /\ s_msgs s' = mkmsg (comp_hdr t i) (m_num m)
                              (mkfield fbts true (VNum TU32 (fst (clock_compressed (s_ts s) (s_lto s) (N.lor MesgCompressedHeaderMask t)))) false :: m_fields m) [] :: s_msgs s.
Proof.
  intros Hex Hbuf Hm Ht Hi Hbody Hrest Hb Hdef Htf.
  destruct (new_definition_rt big m Hm) as [_ Hnd]. rewrite Hnd in Hdef. unfold dwith in Hdef. cbn [md_header md_reserved md_arch md_num md_fields md_devs] in Hdef.
  destruct Hm as (Hdv & Hl & Hnum & Hf).
  pose proof (comp_hdr_facts t i Ht Hi) as Hh. unfold comp_hdr_ok in Hh. cbv zeta in Hh.
  apply andb_prop in Hh. destruct Hh as [Hh Hclk]. apply andb_prop in Hh. destruct Hh as [Hh Hloc]. apply andb_prop in Hh. destruct Hh as [Hnotdef Hcomp].
  apply negb_true_iff in Hnotdef. apply N.eqb_eq in Hloc. apply N.eqb_eq in Hclk.
  set (hb := comp_hdr t i) in *.
  cbn [app] in Hrest. unfold decode_message.
  destruct (read_n_total dc s 1 Hb ltac:(lia) Hbuf) as (s1 & E1 & G1); [rewrite Hrest; unfold len; cbn [length]; lia|].
  rewrite E1, Hrest. change (take 1 (hb :: ?x)) with [hb]. cbn [bind byte_at nth_opt]. rewrite Hnotdef.
  pose proof G1 as (R1 & B1 & C1 & K1d & K1h & K1m). rewrite Hrest in R1. change (drop 1 (hb :: ?x)) with x in R1.
  assert (Hclk1 : clk s1 = clk s) by (pose proof (read_n_clk dc s 1) as W; rewrite E1 in W; apply W).
  unfold decode_data. rewrite Hcomp. cbv zeta. rewrite Hloc, K1d, Hdef. cbn [md_num].
  rewrite Htf. cbn [f_known].
  injection Hclk1 as Hts1 Hlto1. rewrite Hts1, Hlto1.
  set (ck := clock_compressed (s_ts s) (s_lto s) hb).
  assert (Hck : fst ck = fst (clock_compressed (s_ts s) (s_lto s) (N.lor MesgCompressedHeaderMask t))) by (unfold ck, clock_compressed; rewrite Hclk; reflexivity).
  set (s1t := upd_time s1 (fst ck) (snd ck)).
  unfold decode_data_body. cbn [md_arch md_num md_fields md_devs].
  assert (R1t : s_rest s1t = body ++ tail) by exact R1. assert (B1t : bufok s1t) by exact B1.
  destruct (decode_fields_rt dc big (m_num m) Hex Hbuf (m_fields m) s1t [set_value (mkfield fbts true VInvalid false) (VNum TU32 (fst ck))] body tail Hf Hbody R1t B1t)
    as (s2 & Ed & G2); [change (s_cur s1t) with (s_cur s1); rewrite C1; apply (wrap_lt 32)|].
  rewrite Ed. cbn [bind fst snd app]. rewrite Hex. cbn [fst snd].
  pose proof G2 as (R2 & B2 & C2 & K2d & K2h & K2m). rewrite R1t, drop_app_len in R2.
  match goal with |- context [push_msg ?X _] => set (s4 := X) end.
  assert (H4 : sameM s2 s4).
  { unfold s4. destruct (m_num m =? mesgnum_DeveloperDataId), (m_num m =? mesgnum_FieldDescription), (s_fileid s2), (m_num m =? mesgnum_FileId); repeat split. }
  clearbody s4. eexists. split; [reflexivity|].
  destruct H4 as (Q1 & Q2 & Q3 & Q4 & Q5 & Q6).
  unfold rec_post, bufok in *. cbn [push_msg s_rest s_buf s_cur s_header s_defs s_msgs].
  rewrite Q1, Q2, Q3, Q4, Q5, Q6.
  change (s_cur s1t) with (s_cur s1) in C2. change (s_defs s1t) with (s_defs s1) in K2d. change (s_header s1t) with (s_header s1) in K2h. change (s_msgs s1t) with (s_msgs s1) in K2m.
  split; [|split; [exact R2|split; [congruence|]]].
  - split; [rewrite R2, Hrest; change (hb :: body ++ tail) with ((hb :: body) ++ tail); replace (1 + len body) with (len (hb :: body)) by (unfold len; cbn [length]; lia); rewrite drop_app_len; reflexivity|].
    split; [exact B2|]. split; [|congruence]. rewrite C2, C1, wrap_add, N.add_assoc. reflexivity.
  - rewrite K2m, K1m. f_equal. f_equal. cbn [set_value f_fb f_known f_expanded]. rewrite Hck. reflexivity.
Qed.

(* ---------------------------------------------------------------- one message under the compressed-timestamp option *)
Definition ts_front (fs : list field) : list field :=
  match field_by_num fs FieldNumTimestamp with Some f => f :: remove_first_num fs FieldNumTimestamp | None => fs end.
Definition msg_sim (m' m : message) : Prop :=
  m_num m' = m_num m /\ m_devs m' = [] /\ (m_fields m' = m_fields m \/ m_fields m' = ts_front (m_fields m)).
(* the timestamp field, if there is one, is the profile's (the decoder rebuilds a compressed timestamp as that field) *)
Definition ts_known (m : message) : Prop := forall f, field_by_num (m_fields m) FieldNumTimestamp = Some f ->
  create_field (m_num m) FieldNumTimestamp = mkfield (f_fb f) true VInvalid false /\ f_known f = true /\ f_expanded f = false.
Definition msg_rtc (big : bool) (m : message) : Prop := msg_rt big m /\ ts_unique (m_fields m) /\ ts_ok m /\ ts_known m.
Definition nodev (defs : list (option mdef)) : Prop := forall i d, nth i defs None = Some d -> md_devs d = [].

Lemma cons_neq {A} (x : A) l : x :: l <> l.
Proof. intros H. apply (f_equal (@length A)) in H. cbn [length] in H. lia. Qed.
Lemma nodev_replace defs i d : nodev defs -> md_devs d = [] -> nodev (replace_nth defs i (Some d)).
Proof.
  intros H Hd j d' Hj. destruct (Nat.eq_dec i j) as [<-|Hn].
  - destruct (Nat.lt_ge_cases i (length defs)) as [Hl|Hl].
    + rewrite nth_replace_same in Hj by exact Hl. injection Hj as <-. exact Hd.
    + rewrite nth_overflow in Hj by (rewrite replace_nth_length; exact Hl). discriminate.
  - rewrite nth_replace_other in Hj by exact Hn. eapply H; exact Hj.
Qed.
Lemma field_by_num_spec fs n f : field_by_num fs n = Some f -> In f fs /\ f_num f = n.
Proof.
  induction fs as [|g fs IH]; cbn [field_by_num]; [discriminate|]. destruct (f_num g =? n) eqn:E.
  - intros H. injection H as <-. split; [left; reflexivity|apply N.eqb_eq; exact E].
  - intros H. destruct (IH H) as [H1 H2]. split; [right; exact H1|exact H2].
Qed.
Lemma ts_of_field_u32 m f : field_by_num (m_fields m) FieldNumTimestamp = Some f -> ts_field_u32 m = ts_of_field f.
Proof.
  intros H. unfold ts_field_u32, ts_of_field. rewrite H. destruct (field_by_num_spec _ _ _ H) as [_ Hn]. rewrite Hn, N.eqb_refl.
  destruct (f_value f) as [|[] ?| | |]; reflexivity.
Qed.

(* the decoder's clock after the fields of a message = what TimestampProofs.dec_clock says for a message written in full *)
Lemma clock_after_fields m ck : ts_unique (m_fields m) ->
  clock_after (m_fields m) ck = snd (dec_clock ck (match ts_field_u32 m with Some ts => Full ts | None => NoTs end)).
Proof.
  intros Hu. pose proof (ts_field_first (m_fields m) Hu) as H.
  destruct (field_by_num (m_fields m) FieldNumTimestamp) as [f|] eqn:Ef.
  - destruct H as [_ H]. rewrite H, (ts_of_field_u32 m f Ef). destruct (ts_of_field f); reflexivity.
  - rewrite (clock_after_none _ _ H). unfold ts_field_u32. rewrite Ef. reflexivity.
Qed.

Lemma def_clock dc s s1 : c_expand dc = false -> nodev (s_defs s) -> decode_message dc s = Ok s1 -> s_msgs s1 = s_msgs s -> clk s1 = clk s.
Proof.
  intros Hex Hnd D M. pose proof (decode_message_clock dc s Hex Hnd) as W. rewrite D in W. destruct W as [[_ H]|(h & n & a & f0 & Hm & _)]; [exact H|].
  rewrite M in Hm. symmetry in Hm. exfalso. eapply cons_neq; exact Hm.
Qed.
Lemma data_clock dc s s2 hb num fs : c_expand dc = false -> nodev (s_defs s) -> decode_message dc s = Ok s2 ->
  s_msgs s2 = mkmsg hb num fs [] :: s_msgs s -> has hb MesgCompressedHeaderMask = false -> clk s2 = clock_after fs (clk s).
Proof.
  intros Hex Hnd D M Hh. pose proof (decode_message_clock dc s Hex Hnd) as W. rewrite D in W. destruct W as [[Hm _]|(h & n & a & f0 & Hm & Hc)].
  - rewrite M in Hm. exfalso. eapply cons_neq; exact Hm.
  - rewrite M in Hm. injection Hm as -> -> Hf. destruct Hc as [(_ & -> & Hc)|(Hc & _)]; [cbn [app] in Hf; subst a; exact Hc|congruence].
Qed.
Lemma comp_clock dc s s2 hb num tsf fs : c_expand dc = false -> nodev (s_defs s) -> decode_message dc s = Ok s2 ->
  s_msgs s2 = mkmsg hb num (tsf :: fs) [] :: s_msgs s -> has hb MesgCompressedHeaderMask = true ->
  clk s2 = clock_after fs (clock_compressed (s_ts s) (s_lto s) hb).
Proof.
  intros Hex Hnd D M Hh. pose proof (decode_message_clock dc s Hex Hnd) as W. rewrite D in W. destruct W as [[Hm _]|(h & n & a & f0 & Hm & Hc)].
  - rewrite M in Hm. exfalso. eapply cons_neq; exact Hm.
  - rewrite M in Hm. injection Hm as -> -> Hf. destruct Hc as [(Hc & _)|(_ & Hc)]; [congruence|]. cbv zeta in Hc.
    destruct Hc as (t0 & -> & _ & Hc). cbn [app] in Hf. injection Hf as _ <-. exact Hc.
Qed.

(* a message that goes out with a normal header (always, without the option; under the option when its timestamp is absent, invalid
   or out of reach) *)
Lemma message_none c dc st m b st' s tail ta tb :
  (if e_compressed c then compress_timestamp (es_tsref st) (es_lastts st) m else (None, es_tsref st, es_lastts st)) = (None, ta, tb) ->
  c_expand dc = false -> 765 <= c_bufsize dc -> msg_rt (e_big c) m ->
  linv (es_lru st) -> (0 < length (l_items (es_lru st)) <= 16)%nat -> dinv (es_lru st) (s_defs s) -> length (s_defs s) = 16%nat -> nodev (s_defs s) ->
  encode_message c st m = Ok (b, st') -> s_rest s = b ++ tail -> bufok s ->
  s_cur s + len b <= h_datasize (s_header s) -> h_datasize (s_header s) < 4294967296 ->
  exists s' k mh, (1 <= k)%nat /\ N.of_nat k <= len b /\ (forall fuel, decode_messages (k + fuel) dc s = decode_messages fuel dc s')
    /\ s_rest s' = tail /\ bufok s' /\ s_cur s' = s_cur s + len b /\ s_header s' = s_header s
    /\ s_msgs s' = mkmsg mh (m_num m) (m_fields m) [] :: s_msgs s
    /\ linv (es_lru st') /\ length (l_items (es_lru st')) = length (l_items (es_lru st)) /\ dinv (es_lru st') (s_defs s') /\ length (s_defs s') = 16%nat
    /\ nodev (s_defs s') /\ clk s' = clock_after (m_fields m) (clk s) /\ es_lastts st' = tb.
Proof.
  intros Hcmp Hex Hbuf Hm Hli Hsz Hdinv Hl16 Hnd Henc Hrest Hb Hcur Hds.
  unfold encode_message, encode_message_chunks, bind in Henc. rewrite Hcmp in Henc.
  set (m2 := mkmsg MesgNormalHeaderMask (m_num m) (m_fields m) (m_devs m)) in Henc.
  change (new_definition (e_big c) m2) with (new_definition (e_big c) m) in Henc.
  destruct (new_definition_rt (e_big c) m Hm) as [Hdrt Hndf].
  set (d := new_definition (e_big c) m) in *.
  destruct (marshal_def_rt d Hdrt) as (e0 & e1 & Ee & Emd).
  set (r0 := 0 :: md_arch d :: e0 :: e1 :: len (md_fields d) :: ftriples (md_fields d)) in *. rewrite Emd in Henc.
  destruct (lru_put (es_lru st) (64 :: r0)) as [[local isnew] lru'] eqn:Ep.
  destruct (lru_put_spec _ _ _ _ _ Hli ltac:(lia) Ep) as (Hli' & Hlen' & Hidx & Hitems).
  assert (Hl : local < 16) by lia.
  pose proof Hm as (Hdv & Hnf & Hnum & Hfs).
  unfold marshal_message in Henc. cbn [m_fields m_devs m2] in Henc. rewrite Hdv in Henc. cbn [map] in Henc. rewrite app_nil_r in Henc.
  destruct (marshal_values (e_big c) (map f_value (m_fields m))) as [body|] eqn:Ebody; [|destruct isnew; discriminate].
  change (N.lor MesgNormalHeaderMask local) with (N.lor 0 local) in Henc. rewrite N.lor_0_l in Henc.
  assert (Hcs : s_cur s < 4294967296) by lia.
  destruct (hdr_facts local Hl) as [Hdh _]. unfold data_hdr_ok in Hdh. apply andb_prop in Hdh. destruct Hdh as [Hdh _]. apply andb_prop in Hdh. destruct Hdh as [_ Hnotc].
  apply negb_true_iff in Hnotc.
  assert (Hdevd : md_devs (dwith local d) = []) by (destruct Hdrt as (_ & _ & _ & _ & Hd0 & _); exact Hd0).
  destruct isnew.
  - cbv beta iota delta [fst snd m_header] in Henc.
    match type of Henc with Ok (?x, ?y) = Ok _ => assert (Eb : b = x) by congruence; assert (Est : st' = y) by congruence end. subst b st'. clear Henc. cbv beta iota delta [es_lru es_lastts].
    change (concat ([N.lor 64 local :: r0] ++ [local :: body])) with ((N.lor 64 local :: r0) ++ (local :: body) ++ []) in *. rewrite app_nil_r in *.
    rewrite <- app_assoc in Hrest.
    destruct (def_record_rt dc d local ((local :: body) ++ tail) s Hbuf Hdrt Hl) as (s1 & D1 & (R1 & B1 & C1 & H1) & T1 & F1 & M1); [rewrite Emd; exact Hrest|exact Hb|].
    rewrite Emd in C1. fold r0 in C1.
    assert (Hdef1 : nth (N.to_nat local) (s_defs s1) None = Some (dwith local d)) by (rewrite F1; apply nth_replace_same; lia).
    destruct (data_record_rt dc (e_big c) m local body tail s1 Hex Hbuf Hm Hl Ebody T1 B1 Hdef1) as (s2 & D2 & (R2 & B2 & C2 & H2) & T2 & F2 & M2).
    assert (Hnd1 : nodev (s_defs s1)) by (rewrite F1; apply nodev_replace; assumption).
    pose proof (def_clock dc s s1 Hex Hnd D1 M1) as Hk1. pose proof (data_clock dc s1 s2 _ _ _ Hex Hnd1 D2 M2 Hnotc) as Hk2.
    rewrite len_app in Hcur. assert (Ld : len (N.lor 64 local :: r0) = len (64 :: r0)) by reflexivity.
    assert (Lb : len (local :: body) = 1 + len body) by (unfold len; cbn [length]; lia).
    assert (C1' : s_cur s1 = s_cur s + len (64 :: r0)) by (rewrite C1; apply wrap32_small; lia).
    assert (C2' : s_cur s2 = s_cur s + len (64 :: r0) + (1 + len body)) by (rewrite C2, C1'; apply wrap32_small; lia).
    exists s2, 2%nat, local. split; [lia|]. split; [rewrite len_app, Lb; unfold len; cbn [length]; lia|].
    split. { intros fuel. change (2 + fuel)%nat with (S (S fuel)). rewrite (decode_messages_step _ _ _ _ D1) by lia.
             apply decode_messages_step; [exact D2|]. rewrite H1. lia. }
    split; [exact T2|]. split; [exact B2|]. split; [rewrite C2', len_app, Ld, Lb; lia|]. split; [congruence|].
    split; [rewrite M2, M1; reflexivity|]. split; [exact Hli'|]. split; [exact Hlen'|].
    split; [|split; [rewrite F2, F1, replace_nth_length; exact Hl16|split; [rewrite F2; exact Hnd1|split; [rewrite Hk2, Hk1; reflexivity|reflexivity]]]].
    intros j Hj Hne. rewrite Hitems in Hne |- *. rewrite Hlen' in Hj. rewrite F2, F1.
    destruct (Nat.eq_dec j (N.to_nat local)) as [->|Hneq].
    + rewrite !nth_replace_same by lia. exists d. split; [exact Hdrt|]. split; [symmetry; exact Emd|]. rewrite N2Nat.id. reflexivity.
    + rewrite nth_replace_other in Hne |- * by congruence. rewrite nth_replace_other by congruence. apply Hdinv; assumption.
  - destruct Hitems as [Hsame Hnth].
    cbv beta iota delta [fst snd m_header] in Henc.
    match type of Henc with Ok (?x, ?y) = Ok _ => assert (Eb : b = x) by congruence; assert (Est : st' = y) by congruence end. subst b st'. clear Henc. cbv beta iota delta [es_lru es_lastts].
    change (concat ([] ++ [local :: body])) with ((local :: body) ++ []) in *. rewrite app_nil_r in *.
    destruct (Hdinv (N.to_nat local) Hidx) as (d0 & Hd0 & Hi0 & Hdef0); [rewrite Hnth; discriminate|].
    assert (Hdd : d0 = d) by (apply marshal_def_inj; [exact Hd0|exact Hdrt|rewrite <- Hi0, Hnth; symmetry; exact Emd]). subst d0.
    rewrite N2Nat.id in Hdef0.
    destruct (data_record_rt dc (e_big c) m local body tail s Hex Hbuf Hm Hl Ebody Hrest Hb Hdef0) as (s2 & D2 & (R2 & B2 & C2 & H2) & T2 & F2 & M2).
    pose proof (data_clock dc s s2 _ _ _ Hex Hnd D2 M2 Hnotc) as Hk2.
    assert (Lb : len (local :: body) = 1 + len body) by (unfold len; cbn [length]; lia).
    exists s2, 1%nat, local. split; [lia|]. split; [rewrite Lb; lia|].
    split. { intros fuel. apply decode_messages_step; [exact D2|]. lia. }
    split; [exact T2|]. split; [exact B2|]. split; [rewrite C2, Lb; apply wrap32_small; lia|]. split; [exact H2|].
    split; [exact M2|]. split; [exact Hli'|]. split; [exact Hlen'|].
    split; [|split; [rewrite F2; exact Hl16|split; [rewrite F2; exact Hnd|split; [exact Hk2|reflexivity]]]].
    intros j Hj Hne. rewrite Hsame in *. rewrite F2. apply Hdinv; assumption.
Qed.

Lemma msg_rt_without_ts big m : msg_rt big m -> msg_rt big (mkmsg (m_header m) (m_num m) (remove_first_num (m_fields m) FieldNumTimestamp) (m_devs m)).
Proof.
  intros (Hd & Hl & Hn & Hf). destruct (remove_first_sub (m_fields m) FieldNumTimestamp) as [S1 S2].
  unfold msg_rt. cbn [m_devs m_fields m_num]. split; [exact Hd|]. split; [lia|]. split; [exact Hn|]. apply S2. exact Hf.
Qed.

(* a message whose timestamp goes into the record header *)
Lemma message_some c dc st m b st' s tail h fs' ta tb :
  e_compressed c = true -> compress_timestamp (es_tsref st) (es_lastts st) m = (Some (h, fs'), ta, tb) ->
  c_expand dc = false -> 765 <= c_bufsize dc -> msg_rt (e_big c) m -> ts_unique (m_fields m) -> ts_known m ->
  linv (es_lru st) -> (0 < length (l_items (es_lru st)) <= 4)%nat -> dinv (es_lru st) (s_defs s) -> length (s_defs s) = 16%nat -> nodev (s_defs s) ->
  encode_message c st m = Ok (b, st') -> s_rest s = b ++ tail -> bufok s ->
  s_cur s + len b <= h_datasize (s_header s) -> h_datasize (s_header s) < 4294967296 ->
  exists s' k mh tsv f, (1 <= k)%nat /\ N.of_nat k <= len b /\ (forall fuel, decode_messages (k + fuel) dc s = decode_messages fuel dc s')
    /\ s_rest s' = tail /\ bufok s' /\ s_cur s' = s_cur s + len b /\ s_header s' = s_header s
    /\ field_by_num (m_fields m) FieldNumTimestamp = Some f
    /\ s_msgs s' = mkmsg mh (m_num m) (mkfield (f_fb f) true (VNum TU32 tsv) false :: remove_first_num (m_fields m) FieldNumTimestamp) [] :: s_msgs s
    /\ linv (es_lru st') /\ length (l_items (es_lru st')) = length (l_items (es_lru st)) /\ dinv (es_lru st') (s_defs s') /\ length (s_defs s') = 16%nat
    /\ nodev (s_defs s') /\ clk s' = clock_compressed (s_ts s) (s_lto s) h /\ tsv = fst (clock_compressed (s_ts s) (s_lto s) h) /\ es_lastts st' = tb.
Proof.
  intros Hcomp Hcmp Hex Hbuf Hm Hu Htk Hli Hsz Hdinv Hl16 Hnd Henc Hrest Hb Hcur Hds.
  destruct (compress_some _ _ _ _ _ _ _ Hcmp) as (t & Ht & -> & ->).
  (* the timestamp field of the message *)
  assert (Hf : exists f ts, field_by_num (m_fields m) FieldNumTimestamp = Some f /\ f_value f = VNum TU32 ts).
  { revert Hcmp. unfold compress_timestamp. destruct encoder_tracks_last_timestamp.
    - unfold ts_field_u32. destruct (field_by_num (m_fields m) FieldNumTimestamp) as [f|]; [|discriminate].
      destruct (f_value f) as [|[] x| | |] eqn:Ev; try discriminate. intros _. exists f, x. split; [reflexivity|exact Ev].
    - unfold field_value_by_num, u32_of. destruct (field_by_num (m_fields m) FieldNumTimestamp) as [f|]; [|cbn; discriminate].
      destruct (f_value f) as [|[] x| | |] eqn:Ev; try (cbn; discriminate). intros _. exists f, x. split; [reflexivity|exact Ev]. }
  destruct Hf as (f & ts & Ef & Evf).
  destruct (field_by_num_spec _ _ _ Ef) as [Hin Hfn].
  pose proof Hm as (Hdv & Hnf & Hnum & Hfs).
  destruct (Htk f Ef) as (Hcf & Hkn & Hexp).
  set (fs' := remove_first_num (m_fields m) FieldNumTimestamp) in *.
  set (m1 := mkmsg (m_header m) (m_num m) fs' (m_devs m)).
  pose proof (msg_rt_without_ts _ _ Hm) as Hm1. fold fs' m1 in Hm1.
  unfold encode_message, encode_message_chunks, bind in Henc. rewrite Hcomp, Hcmp in Henc.
  set (hc := N.lor 128 t) in *.
  set (m2 := mkmsg hc (m_num m) fs' (m_devs m)) in Henc.
  change (new_definition (e_big c) m2) with (new_definition (e_big c) m1) in Henc.
  destruct (new_definition_rt (e_big c) m1 Hm1) as [Hdrt Hndf].
  set (d := new_definition (e_big c) m1) in *.
  destruct (marshal_def_rt d Hdrt) as (e0 & e1 & Ee & Emd).
  set (r0 := 0 :: md_arch d :: e0 :: e1 :: len (md_fields d) :: ftriples (md_fields d)) in *. rewrite Emd in Henc.
  destruct (lru_put (es_lru st) (64 :: r0)) as [[local isnew] lru'] eqn:Ep.
  destruct (lru_put_spec _ _ _ _ _ Hli ltac:(lia) Ep) as (Hli' & Hlen' & Hidx & Hitems).
  assert (Hl4 : local < 4) by lia. assert (Hl : local < 16) by lia.
  unfold marshal_message in Henc. cbn [m_fields m_devs m2] in Henc. rewrite Hdv in Henc. cbn [map] in Henc. rewrite app_nil_r in Henc.
  destruct (marshal_values (e_big c) (map f_value fs')) as [body|] eqn:Ebody; [|destruct isnew; discriminate].
  change (N.lor hc (wrap 8 (N.shiftl local CompressedBitShift))) with (comp_hdr t local) in Henc.
  set (hb := comp_hdr t local) in *.
  assert (Hcs : s_cur s < 4294967296) by lia.
  pose proof (comp_hdr_facts t local Ht Hl4) as Hh. unfold comp_hdr_ok in Hh. cbv zeta in Hh. fold hb in Hh.
  apply andb_prop in Hh. destruct Hh as [Hh Hclk]. apply andb_prop in Hh. destruct Hh as [Hh _]. apply andb_prop in Hh. destruct Hh as [_ Hhcomp].
  apply N.eqb_eq in Hclk.
  assert (Hckeq : forall a0 b0, clock_compressed a0 b0 hb = clock_compressed a0 b0 hc) by (intros; unfold clock_compressed; rewrite Hclk; reflexivity).
  assert (Hdevd : md_devs (dwith local d) = []) by (destruct Hdrt as (_ & _ & _ & _ & Hd0 & _); exact Hd0).
  assert (Hnots : forall ck, clock_after fs' ck = ck).
  { intros ck. apply clock_after_none. pose proof (ts_field_first (m_fields m) Hu) as H. rewrite Ef in H. apply H. }
  assert (Hbody1 : marshal_values (e_big c) (map f_value (m_fields m1)) = Some body) by exact Ebody.
  destruct isnew.
  - cbv beta iota delta [fst snd m_header] in Henc.
    match type of Henc with Ok (?x, ?y) = Ok _ => assert (Eb : b = x) by congruence; assert (Est : st' = y) by congruence end. subst b st'. clear Henc. cbv beta iota delta [es_lru es_lastts].
    change (concat ([N.lor 64 local :: r0] ++ [hb :: body])) with ((N.lor 64 local :: r0) ++ (hb :: body) ++ []) in *. rewrite app_nil_r in *.
    rewrite <- app_assoc in Hrest.
    destruct (def_record_rt dc d local ((hb :: body) ++ tail) s Hbuf Hdrt Hl) as (s1 & D1 & (R1 & B1 & C1 & H1) & T1 & F1 & M1); [rewrite Emd; exact Hrest|exact Hb|].
    rewrite Emd in C1. fold r0 in C1.
    assert (Hdef1 : nth (N.to_nat local) (s_defs s1) None = Some (dwith local d)) by (rewrite F1; apply nth_replace_same; lia).
    assert (Hnd1 : nodev (s_defs s1)) by (rewrite F1; apply nodev_replace; assumption).
    pose proof (def_clock dc s s1 Hex Hnd D1 M1) as Hk1. injection Hk1 as Hts1 Hlto1.
    destruct (comp_record_rt dc (e_big c) m1 t local body tail s1 (f_fb f) Hex Hbuf Hm1 Ht Hl4 Hbody1 T1 B1 Hdef1 Hcf) as (s2 & D2 & (R2 & B2 & C2 & H2) & T2 & F2 & M2).
    cbn [m_num m_fields m1] in M2. fold hb hc in M2.
    pose proof (comp_clock dc s1 s2 _ _ _ _ Hex Hnd1 D2 M2 Hhcomp) as Hk2. rewrite Hnots, Hckeq, Hts1, Hlto1 in Hk2. rewrite Hts1, Hlto1 in M2.
    rewrite len_app in Hcur. assert (Ld : len (N.lor 64 local :: r0) = len (64 :: r0)) by reflexivity.
    assert (Lb : len (hb :: body) = 1 + len body) by (unfold len; cbn [length]; lia).
    assert (C1' : s_cur s1 = s_cur s + len (64 :: r0)) by (rewrite C1; apply wrap32_small; lia).
    assert (C2' : s_cur s2 = s_cur s + len (64 :: r0) + (1 + len body)) by (rewrite C2, C1'; apply wrap32_small; lia).
    exists s2, 2%nat, hb. eexists. exists f. split; [lia|]. split; [rewrite len_app, Lb; unfold len; cbn [length]; lia|].
    split. { intros fuel. change (2 + fuel)%nat with (S (S fuel)). rewrite (decode_messages_step _ _ _ _ D1) by lia.
             apply decode_messages_step; [exact D2|]. rewrite H1. lia. }
    split; [exact T2|]. split; [exact B2|]. split; [rewrite C2', len_app, Ld, Lb; lia|]. split; [congruence|]. split; [exact Ef|].
    split; [rewrite M2, M1; reflexivity|]. split; [exact Hli'|]. split; [exact Hlen'|].
    split; [|split; [rewrite F2, F1, replace_nth_length; exact Hl16|split; [rewrite F2; exact Hnd1|split; [exact Hk2|split; reflexivity]]]].
    intros j Hj Hne. rewrite Hitems in Hne |- *. rewrite Hlen' in Hj. rewrite F2, F1.
    destruct (Nat.eq_dec j (N.to_nat local)) as [->|Hneq].
    + rewrite !nth_replace_same by lia. exists d. split; [exact Hdrt|]. split; [symmetry; exact Emd|]. rewrite N2Nat.id. reflexivity.
    + rewrite nth_replace_other in Hne |- * by congruence. rewrite nth_replace_other by congruence. apply Hdinv; assumption.
  - destruct Hitems as [Hsame Hnth].
    cbv beta iota delta [fst snd m_header] in Henc.
    match type of Henc with Ok (?x, ?y) = Ok _ => assert (Eb : b = x) by congruence; assert (Est : st' = y) by congruence end. subst b st'. clear Henc. cbv beta iota delta [es_lru es_lastts].
    change (concat ([] ++ [hb :: body])) with ((hb :: body) ++ []) in *. rewrite app_nil_r in *.
    destruct (Hdinv (N.to_nat local) Hidx) as (d0 & Hd0 & Hi0 & Hdef0); [rewrite Hnth; discriminate|].
    assert (Hdd : d0 = d) by (apply marshal_def_inj; [exact Hd0|exact Hdrt|rewrite <- Hi0, Hnth; symmetry; exact Emd]). subst d0.
    rewrite N2Nat.id in Hdef0.
    destruct (comp_record_rt dc (e_big c) m1 t local body tail s (f_fb f) Hex Hbuf Hm1 Ht Hl4 Hbody1 Hrest Hb Hdef0 Hcf) as (s2 & D2 & (R2 & B2 & C2 & H2) & T2 & F2 & M2).
    cbn [m_num m_fields m1] in M2. fold hb hc in M2.
    pose proof (comp_clock dc s s2 _ _ _ _ Hex Hnd D2 M2 Hhcomp) as Hk2. rewrite Hnots, Hckeq in Hk2.
    assert (Lb : len (hb :: body) = 1 + len body) by (unfold len; cbn [length]; lia).
    exists s2, 1%nat, hb. eexists. exists f. split; [lia|]. split; [rewrite Lb; lia|].
    split. { intros fuel. apply decode_messages_step; [exact D2|]. lia. }
    split; [exact T2|]. split; [exact B2|]. split; [rewrite C2, Lb; apply wrap32_small; lia|]. split; [exact H2|]. split; [exact Ef|].
    split; [exact M2|]. split; [exact Hli'|]. split; [exact Hlen'|].
    split; [|split; [rewrite F2; exact Hl16|split; [rewrite F2; exact Hnd|split; [exact Hk2|split; reflexivity]]]].
    intros j Hj Hne. rewrite Hsame in *. rewrite F2. apply Hdinv; assumption.
Qed.

(* ---------------------------------------------------------------- all messages, compressed-timestamp option *)
Lemma ts_of_field_value f t : ts_of_field f = Some t -> f_value f = VNum TU32 t.
Proof. unfold ts_of_field. destruct (f_value f) as [|[] x| | |]; try discriminate. destruct (f_num f =? FieldNumTimestamp); [|discriminate]. intros H. injection H as <-. reflexivity. Qed.

Lemma messages_rtc c dc : e_compressed c = true -> encoder_tracks_last_timestamp = true -> c_expand dc = false -> 765 <= c_bufsize dc ->
  forall ms st acc out st', Forall (msg_rtc (e_big c)) ms -> linv (es_lru st) -> (0 < length (l_items (es_lru st)) <= 4)%nat ->
  encode_messages c st ms acc = Ok (out, st') ->
  exists recs, out = acc ++ recs /\
    forall s tail fuel, dinv (es_lru st) (s_defs s) -> length (s_defs s) = 16%nat -> nodev (s_defs s) -> R (es_lastts st) (clk s) ->
      s_rest s = recs ++ tail -> bufok s ->
      s_cur s + len recs = h_datasize (s_header s) -> h_datasize (s_header s) < 4294967296 -> (length recs <= fuel)%nat ->
      exists s' decoded, decode_messages fuel dc s = Ok s' /\ s_rest s' = tail /\ bufok s' /\ s_header s' = s_header s
                 /\ s_msgs s' = rev decoded ++ s_msgs s /\ Forall2 msg_sim decoded ms.
Proof.
  intros Hcomp Hflag Hex Hbuf. induction ms as [|m ms IH]; intros st acc out st' Hrt Hli Hsz Henc; cbn [encode_messages] in Henc.
  - injection Henc as <- <-. exists []. rewrite app_nil_r. split; [reflexivity|].
    intros s tail fuel _ _ _ _ Hrest Hb Hcur _ _. exists s, []. change (len (@nil N)) with 0 in Hcur.
    split; [apply decode_messages_done; lia|]. split; [exact Hrest|]. split; [exact Hb|]. split; [reflexivity|]. split; [reflexivity|constructor].
  - inversion Hrt as [|? ? Hm Hms]; subst. unfold bind in Henc.
    destruct (encode_message c st m) as [[b st1]| | |] eqn:Em; try discriminate.
    destruct (encode_message_lru c st m b st1 Hli ltac:(lia) Em) as [Hli1 Hlen1].
    destruct (IH st1 (acc ++ b) out st' Hms Hli1 ltac:(lia) Henc) as (recs' & Hout & Hdec).
    exists (b ++ recs'). split; [rewrite Hout, app_assoc; reflexivity|].
    intros s tail fuel Hdinv Hl16 Hnd HR Hrest Hb Hcur Hds Hfuel.
    rewrite <- app_assoc in Hrest. rewrite len_app in Hcur.
    destruct Hm as (Hmrt & Hu & Hok & Htk).
    pose proof (step_sim Hflag (es_tsref st) (es_lastts st) (clk s) m HR Hok) as Hstep. unfold enc_wire in Hstep.
    destruct (compress_timestamp (es_tsref st) (es_lastts st) m) as [[cmp ta] tb] eqn:Ecmp.
    assert (Hnext : forall s1 k m1, (1 <= k)%nat -> N.of_nat k <= len b -> (forall fuel, decode_messages (k + fuel) dc s = decode_messages fuel dc s1) ->
              s_rest s1 = recs' ++ tail -> bufok s1 -> s_cur s1 = s_cur s + len b -> s_header s1 = s_header s -> s_msgs s1 = m1 :: s_msgs s -> msg_sim m1 m ->
              dinv (es_lru st1) (s_defs s1) -> length (s_defs s1) = 16%nat -> nodev (s_defs s1) -> R (es_lastts st1) (clk s1) ->
              exists s' decoded, decode_messages fuel dc s = Ok s' /\ s_rest s' = tail /\ bufok s' /\ s_header s' = s_header s
                 /\ s_msgs s' = rev decoded ++ s_msgs s /\ Forall2 msg_sim decoded (m :: ms)).
    { intros s1 k m1 Hk1 Hk2 Hstepk T1 B1 C1 H1 M1 Hsim Hdinv1 Hl161 Hnd1 HR1.
      rewrite app_length in Hfuel. unfold len in Hk2.
      replace fuel with (k + (fuel - k))%nat by lia. rewrite Hstepk.
      destruct (Hdec s1 tail (fuel - k)%nat Hdinv1 Hl161 Hnd1 HR1 T1 B1) as (s' & dec' & D' & T' & B' & H' & M' & F'); [rewrite H1, C1; lia|rewrite H1; exact Hds|lia|].
      exists s', (m1 :: dec'). split; [exact D'|]. split; [exact T'|]. split; [exact B'|]. split; [congruence|].
      split; [rewrite M', M1; cbn [rev]; rewrite <- app_assoc; reflexivity|]. constructor; assumption. }
    destruct cmp as [[h fs']|].
    + (* timestamp in the header *)
      cbn [dec_clock] in Hstep. destruct Hstep as [Ho HR'].
      destruct (message_some c dc st m b st1 s (recs' ++ tail) h fs' ta tb Hcomp Ecmp Hex Hbuf Hmrt Hu Htk Hli Hsz Hdinv Hl16 Hnd Em Hrest Hb ltac:(lia) Hds)
        as (s1 & k & mh & tsv & f & Hk1 & Hk2 & Hstepk & T1 & B1 & C1 & H1 & Ef & M1 & _ & _ & Hdinv1 & Hl161 & Hnd1 & Hclk1 & Htsv & Hlast).
      apply (Hnext s1 k _ Hk1 Hk2 Hstepk T1 B1 C1 H1 M1); try assumption.
      * unfold msg_sim. cbn [m_num m_devs m_fields]. split; [reflexivity|]. split; [reflexivity|]. right. unfold ts_front. rewrite Ef. f_equal.
        rewrite (ts_of_field_u32 m f Ef) in Ho. symmetry in Ho. apply ts_of_field_value in Ho. cbn [clk fst snd] in Ho. rewrite <- Htsv in Ho.
        destruct (Htk f Ef) as (_ & Hkn & Hexp).
        destruct f as [fb kn v ex]. cbn in *. subst kn ex v. reflexivity.
      * rewrite Hlast, Hclk1. exact HR'.
    + (* normal header *)
      assert (Hcmp : (if e_compressed c then compress_timestamp (es_tsref st) (es_lastts st) m else (None, es_tsref st, es_lastts st)) = (None, ta, tb)) by (rewrite Hcomp; exact Ecmp).
      destruct (message_none c dc st m b st1 s (recs' ++ tail) ta tb Hcmp Hex Hbuf Hmrt Hli ltac:(lia) Hdinv Hl16 Hnd Em Hrest Hb ltac:(lia) Hds)
        as (s1 & k & mh & Hk1 & Hk2 & Hstepk & T1 & B1 & C1 & H1 & M1 & _ & _ & Hdinv1 & Hl161 & Hnd1 & Hclk1 & Hlast).
      apply (Hnext s1 k _ Hk1 Hk2 Hstepk T1 B1 C1 H1 M1); try assumption.
      * unfold msg_sim. cbn [m_num m_devs m_fields]. split; [reflexivity|]. split; [reflexivity|]. left. reflexivity.
      * rewrite Hlast, Hclk1, (clock_after_fields m (clk s) Hu).
        destruct (dec_clock (clk s) (match ts_field_u32 m with Some ts => Full ts | None => NoTs end)) as [o ck'] eqn:Ed. cbn [snd]. apply Hstep.
Qed.

(* ---------------------------------------------------------------- encode, then decode (compressed-timestamp option) *)
Lemma read_raw_clk c s n : wpost (read_raw c s n) (fun r => clk (snd r) = clk s).
Proof. unfold read_raw. destruct (n <=? s_buf s); [reflexivity|]. destruct (n <=? _); [reflexivity|exact I]. Qed.
Lemma header_clk c s : wpost (decode_file_header c s) (fun s' => clk s' = clk s).
Proof.
  unfold decode_file_header.
  eapply wpost_bind; [apply read_raw_clk|]. intros [b s1] H1. cbn [snd] in H1. cbv beta iota zeta.
  eapply wpost_bind; [apply wpost_any|]. intros size _.
  destruct (negb ((size =? 12) || (size =? 14))); [exact I|].
  eapply wpost_bind; [apply read_raw_clk|]. intros [b2 s2] H2. cbn [snd] in H2. cbv beta iota zeta.
  change (clk (upd_crc s1 (write (s_crc s1) b))) with (clk s1) in H2.
  eapply wpost_bind; [apply wpost_any|]. intros dt _. destruct (negb (list_N_eqb dt DataTypeFIT)); [exact I|].
  eapply wpost_bind; [apply wpost_any|]. intros b0 _. eapply wpost_bind; [apply wpost_any|]. intros pv _.
  eapply wpost_bind; [apply wpost_any|]. intros ds _. cbv beta zeta. destruct (le_word ds =? 0); [exact I|].
  eapply wpost_bind; [apply wpost_any|]. intros hcrc _. cbv beta zeta.
  assert (Hfin : forall h e, clk (upd_crc (push_event (upd_header s2 h) e) 0) = clk s) by (intros; change (clk (upd_crc (push_event (upd_header s2 h) e) 0)) with (clk s2); congruence).
  destruct ((hcrc =? 0) || negb (c_checksum c)); [apply Hfin|]. destruct (negb (_ =? hcrc)); [exact I|apply Hfin].
Qed.

#[local] Opaque write le_bytes.
Theorem encode_decode_roundtrip_compressed c f r dc :
  e_compressed c = true -> encoder_tracks_last_timestamp = true -> c_checksum dc = false -> c_expand dc = false -> 765 <= c_bufsize dc ->
  encode_fit c f = Ok r -> Forall (msg_rtc (e_big c)) (er_msgs r) -> len (er_bytes r) < 4294967296 ->
  exists ft, decode_stream dc (er_bytes r) = Ok [ft] /\ Forall2 msg_sim (fit_msgs ft) (er_msgs r).
Proof.
  intros Hcomp Hflag Hck Hex Hbuf Henc Hrt Hlen.
  destruct (encode_fit_inv c f r Henc) as (hb & records & st & ver & pv & Hbytes & Hem & Hne & Hhlen & Hh12).
  set (hsize := if ef_hsize f =? 12 then 12 else 14) in *.
  assert (Hsz : hsize = 12 \/ hsize = 14) by (unfold hsize; destruct (ef_hsize f =? 12); auto).
  assert (Hsz4 : (0 < length (l_items (es_lru (es_init c))) <= 4)%nat).
  { unfold es_init, lru_init, local_types. cbn [es_lru l_items]. rewrite repeat_length, Hcomp. lia. }
  destruct (messages_rtc c dc Hcomp Hflag Hex Hbuf (er_msgs r) (es_init c) [] records st Hrt (linv_init _) Hsz4 Hem) as (recs & Hrec & Hdec).
  cbn [app] in Hrec. subst recs.
  destruct (encode_messages_acc _ _ _ _ _ _ Hem) as (x & Hx & Hds & _). cbn [app] in Hx. subst x.
  cbn [es_init es_datasize] in Hds. rewrite N.add_0_l in Hds.
  pose proof (datasize_small c _ _ _ _ _ Hem ltac:(cbn; lia)) as Hsmall.
  assert (Hlr : len records < 4294967296) by (rewrite Hbytes, !len_app in Hlen; lia).
  assert (Hdsz : es_datasize st = len records) by (rewrite <- (RoundtripSeq.wrap32_small (es_datasize st) Hsmall), Hds; apply RoundtripSeq.wrap32_small; exact Hlr).
  assert (Hrne : len records <> 0).
  { destruct (er_msgs r) as [|m0 ms0]; [contradiction|]. cbn [encode_messages] in Hem. unfold bind in Hem.
    destruct (encode_message c (es_init c) m0) as [[b0 st0]| | |] eqn:E0; try discriminate.
    pose proof (encode_message_nonempty _ _ _ _ _ E0) as Hb0. destruct (encode_messages_acc _ _ _ _ _ _ Hem) as (x & -> & _).
    cbn [app]. rewrite len_app. destruct b0; [contradiction|unfold len; cbn [length]; lia]. }
  unfold decode_stream. set (bs := er_bytes r). set (s0 := init_state bs).
  assert (Hb0 : bufok s0) by (unfold bufok, s0; cbn; lia).
  destruct (header_total dc s0 hb (records ++ le_bytes 2 (er_crc r)) hsize ver pv (es_datasize st) Hck Hbuf Hb0 Hbytes Hhlen Hsz Hh12 Hsmall ltac:(lia))
    as (s1 & D1 & R1 & B1 & C1 & F1 & M1 & H1).
  assert (Hclk1 : clk s1 = (0, 0)) by (pose proof (header_clk dc s0) as W; rewrite D1 in W; exact W).
  destruct (Hdec s1 (le_bytes 2 (er_crc r)) (S (length (s_rest s1)))) as (s2 & decoded & D2 & R2 & B2 & H2 & M2 & F2).
  { rewrite F1. apply dinv_init. }
  { rewrite F1. reflexivity. }
  { rewrite F1. intros i d Hd. exfalso. change (s_defs s0) with (repeat (@None mdef) 16) in Hd. destruct (Nat.lt_ge_cases i 16) as [Hi|Hi]; [rewrite nth_repeat in Hd|rewrite nth_overflow in Hd by (rewrite repeat_length; exact Hi)]; discriminate. }
  { rewrite Hclk1. unfold R, W32. cbn. repeat split; lia. }
  { exact R1. }
  { exact B1. }
  { rewrite C1, H1, Hdsz. reflexivity. }
  { rewrite H1. exact Hsmall. }
  { rewrite R1, app_length. lia. }
  assert (Hl2 : len (le_bytes 2 (er_crc r)) = 2) by (unfold len; rewrite le_bytes_length; reflexivity).
  destruct (read_raw_ok dc s2 2 B2 ltac:(lia) Hbuf) as (s3 & E3 & R3 & B3 & _ & _ & _ & H3 & K3); [rewrite R2, Hl2; lia|].
  assert (Hone : decode_one dc s0 = Ok (mkfit (s_header s3) (rev (s_msgs s3)) (le_word (take 2 (s_rest s2))), reset_seq (push_event (upd_crc s3 0) (EvCrc (le_word (take 2 (s_rest s2))))))).
  { unfold decode_one, bind. rewrite D1, D2. unfold decode_crc, bind. rewrite E3, Hck. reflexivity. }
  assert (Hrest3 : s_rest s3 = []).
  { rewrite R3, R2. replace 2 with (len (le_bytes 2 (er_crc r))) by exact Hl2. rewrite <- (app_nil_r (le_bytes 2 (er_crc r))) at 2. apply drop_app_len. }
  eexists. split.
  - assert (Hbl : exists n, length bs = S n).
    { unfold bs. rewrite Hbytes, app_length. destruct hb; [unfold len in Hhlen; cbn in Hhlen; destruct Hsz; lia|cbn [length]; eexists; reflexivity]. }
    destruct Hbl as (n & Hn). rewrite Hn. cbn [decode_all].
    assert (Hfirst : forall X : outcome (list fit) * list event, match s_rest s0 with [] => X | _ :: _ => X end = X) by (intros X; destruct (s_rest s0); reflexivity).
    rewrite Hfirst, Hone. cbn [decode_all reset_seq push_event upd_crc upd_read s_rest]. rewrite Hrest3. reflexivity.
  - cbn [fit_msgs]. destruct K3 as (_ & _ & _ & _ & _ & _ & _ & _ & K3m & _). rewrite K3m, M2, M1. cbn [s_msgs s0 init_state]. rewrite app_nil_r, rev_involutive. exact F2.
Qed.

Lemma one_sequence_rtc c f r dc s tail :
  e_compressed c = true -> encoder_tracks_last_timestamp = true -> c_checksum dc = false -> c_expand dc = false -> 765 <= c_bufsize dc ->
  encode_fit c f = Ok r -> Forall (msg_rtc (e_big c)) (er_msgs r) -> len (er_bytes r) < 4294967296 ->
  boundary_state s -> s_rest s = er_bytes r ++ tail ->
  exists ft s', decode_one dc s = Ok (ft, s') /\ Forall2 msg_sim (fit_msgs ft) (er_msgs r) /\ boundary_state s' /\ s_rest s' = tail.
Proof.
  intros Hcomp Hflag Hck Hex Hbuf Henc Hrt Hlen (Hb0 & Hc0 & Hd0 & Hm0 & Hts0 & Hlto0) Hrest.
  destruct (encode_fit_inv c f r Henc) as (hb & records & st & ver & pv & Hbytes & Hem & Hne & Hhlen & Hh12).
  set (hsize := if ef_hsize f =? 12 then 12 else 14) in *.
  assert (Hsz : hsize = 12 \/ hsize = 14) by (unfold hsize; destruct (ef_hsize f =? 12); auto).
  assert (Hsz4 : (0 < length (l_items (es_lru (es_init c))) <= 4)%nat).
  { unfold es_init, lru_init, local_types. cbn [es_lru l_items]. rewrite repeat_length, Hcomp. lia. }
  destruct (messages_rtc c dc Hcomp Hflag Hex Hbuf (er_msgs r) (es_init c) [] records st Hrt (linv_init _) Hsz4 Hem) as (recs & Hrec & Hdec).
  cbn [app] in Hrec. subst recs.
  destruct (encode_messages_acc _ _ _ _ _ _ Hem) as (x & Hx & Hds & _). cbn [app] in Hx. subst x.
  cbn [es_init es_datasize] in Hds. rewrite N.add_0_l in Hds.
  pose proof (datasize_small c _ _ _ _ _ Hem ltac:(cbn; lia)) as Hsmall.
  assert (Hlr : len records < 4294967296) by (rewrite Hbytes, !len_app in Hlen; lia).
  assert (Hdsz : es_datasize st = len records) by (rewrite <- (RoundtripSeq.wrap32_small (es_datasize st) Hsmall), Hds; apply RoundtripSeq.wrap32_small; exact Hlr).
  assert (Hrne : len records <> 0).
  { destruct (er_msgs r) as [|m0 ms0]; [contradiction|]. cbn [encode_messages] in Hem. unfold bind in Hem.
    destruct (encode_message c (es_init c) m0) as [[b0 st0]| | |] eqn:E0; try discriminate.
    pose proof (encode_message_nonempty _ _ _ _ _ E0) as Hb0'. destruct (encode_messages_acc _ _ _ _ _ _ Hem) as (x & -> & _).
    cbn [app]. rewrite len_app. destruct b0; [contradiction|unfold len; cbn [length]; lia]. }
  rewrite Hbytes in Hrest. rewrite <- !app_assoc in Hrest.
  destruct (header_total dc s hb (records ++ le_bytes 2 (er_crc r) ++ tail) hsize ver pv (es_datasize st) Hck Hbuf Hb0 Hrest Hhlen Hsz Hh12 Hsmall ltac:(lia))
    as (s1 & D1 & R1 & B1 & C1 & F1 & M1 & H1).
  assert (Hclk1 : clk s1 = (0, 0)) by (pose proof (header_clk dc s) as W; rewrite D1 in W; rewrite W; unfold clk; rewrite Hts0, Hlto0; reflexivity).
  destruct (Hdec s1 (le_bytes 2 (er_crc r) ++ tail) (S (length (s_rest s1)))) as (s2 & decoded & D2 & R2 & B2 & H2 & M2 & F2).
  { rewrite F1, Hd0. apply dinv_init. }
  { rewrite F1, Hd0. reflexivity. }
  { rewrite F1, Hd0. intros i d Hd. exfalso. unfold no_defs in Hd. destruct (Nat.lt_ge_cases i 16) as [Hi|Hi]; [rewrite nth_repeat in Hd|rewrite nth_overflow in Hd by (rewrite repeat_length; exact Hi)]; discriminate. }
  { rewrite Hclk1. unfold R, W32. cbn. repeat split; lia. }
  { exact R1. }
  { exact B1. }
  { rewrite C1, Hc0, H1, Hdsz. reflexivity. }
  { rewrite H1. exact Hsmall. }
  { rewrite R1, app_length. lia. }
  assert (Hl2 : len (le_bytes 2 (er_crc r)) = 2) by (unfold len; rewrite le_bytes_length; reflexivity).
  destruct (read_raw_ok dc s2 2 B2 ltac:(lia) Hbuf) as (s3 & E3 & R3 & B3 & _ & _ & _ & H3 & K3); [rewrite R2, len_app, Hl2; lia|].
  eexists. eexists. split.
  - unfold decode_one, bind. rewrite D1, D2. unfold decode_crc, bind. rewrite E3, Hck. reflexivity.
  - cbn [fit_msgs snd fst]. split.
    + destruct K3 as (_ & _ & _ & _ & _ & _ & _ & _ & K3m & _). cbn [push_event upd_crc upd_read s_msgs]. rewrite K3m, M2, M1, Hm0. rewrite app_nil_r, rev_involutive. exact F2.
    + split; [apply reset_seq_boundary; exact B3|]. cbn [reset_seq push_event upd_crc upd_read s_rest].
      rewrite R3, R2. replace 2 with (len (le_bytes 2 (er_crc r))) by exact Hl2. apply drop_app_len.
Qed.
