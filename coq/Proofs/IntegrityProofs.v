(* C04: corruption and truncation against the integrity rules (Model/Wire.v) -- byte-level consequences of the CRC algebra
   of Proofs/CrcDetection.v. *)
From Coq Require Import NArith ZArith List Lia Bool ZifyN ZifyNat ZifyBool.
Import ListNotations.
From Fit Require Import Model.Base Model.Crc Model.Wire Proofs.CrcProofs Proofs.CrcDetection Proofs.EncoderProofs Proofs.RawProofs.
Open Scope N_scope.

Definition bits_of_bytes (bs : bytes) : list N := concat (map (bits_of 8) bs).

Lemma write_bits bs : bytes_ok bs -> write 0 bs = crc_bits 0 (bits_of_bytes bs).
Proof. intros H. apply (write_spec bs 0); [reflexivity|exact H]. Qed.

Lemma bits_of_bits w b : bits_ok (bits_of w b).
Proof.
  unfold bits_of, bits_ok. apply Forall_forall. intros x Hx. apply in_map_iff in Hx. destruct Hx as (i & <- & _).
  unfold bit. apply land1_cases.
Qed.
Lemma bits_of_bytes_ok bs : bits_ok (bits_of_bytes bs).
Proof.
  unfold bits_of_bytes, bits_ok. induction bs as [|b bs IH]; cbn [map concat]; [constructor|].
  apply Forall_app. split; [apply bits_of_bits|exact IH].
Qed.
Lemma bits_of_bytes_length bs : length (bits_of_bytes bs) = (8 * length bs)%nat.
Proof.
  unfold bits_of_bytes. induction bs as [|b bs IH]; cbn [map concat length]; [reflexivity|].
  rewrite app_length, IH. unfold bits_of. rewrite map_length, seq_length. lia.
Qed.

(* the stored CRC matches the data exactly when data ++ crc has syndrome 0 *)
Lemma crc_match_syndrome r c0 c1 : bytes_ok r -> write 0 r = c0 + 256 * c1 -> c0 < 256 -> c1 < 256 ->
  write 0 (r ++ [c0; c1]) = 0.
Proof.
  intros Hr Hm H0 H1. rewrite write_app.
  assert (Hle : [c0; c1] = le_bytes 2 (write 0 r)).
  { rewrite Hm. cbn [le_bytes].
    assert (E0 : (c0 + 256 * c1) mod 256 = c0).
    { rewrite (N.mul_comm 256 c1), N.mod_add by discriminate. apply N.mod_small. exact H0. }
    assert (E1 : ((c0 + 256 * c1) / 256) mod 256 = c1).
    { rewrite (N.mul_comm 256 c1), N.div_add by discriminate. rewrite (N.div_small c0) by exact H0. rewrite N.add_0_l. apply N.mod_small. exact H1. }
    rewrite E0, E1. reflexivity. }
  rewrite Hle. apply write_own_crc. apply (C18_state_bounded r Hr).
Qed.

(* ---- burst errors: a sequence region (records ++ stored CRC) that verifies, hit by any burst of at most 16 consecutive
        bits (in the checksum's bit order, anywhere in the region), no longer verifies -- for regions of any length *)
Theorem burst_rejected region region' i p j : bytes_ok region -> bytes_ok region' -> write 0 region = 0 ->
  bits_ok p -> (length p < 16)%nat ->
  bits_of_bytes region' = xorl (bits_of_bytes region) (repeat 0 i ++ 1 :: p ++ repeat 0 j) ->
  length (bits_of_bytes region) = (i + S (length p) + j)%nat ->
  write 0 region' <> 0.
Proof.
  intros Hr Hr' Hsyn Hp Hl Hx Hlen.
  rewrite (write_bits region' Hr'), Hx.
  apply burst_detected; [apply bits_of_bytes_ok|exact Hp|exact Hl|exact Hlen|].
  rewrite <- (write_bits region Hr). exact Hsyn.
Qed.

(* the integrity rule on a region r' ++ [c0; c1]: if the stored CRC matched, the region would have syndrome 0 *)
Corollary corrupted_crc_mismatch r' c0 c1 : bytes_ok r' -> c0 < 256 -> c1 < 256 ->
  write 0 (r' ++ [c0; c1]) <> 0 -> write 0 r' <> c0 + 256 * c1.
Proof. intros Hr H0 H1 Hn Hm. apply Hn. apply crc_match_syndrome; assumption. Qed.

(* ---- shape of an accepted sequence *)
Lemma integrity_sequence_shape bs rest : integrity_sequence bs = Some rest ->
  exists hs dsize, (hs = 12 \/ hs = 14) /\ nth_opt bs 0 = Some hs /\ dsize = le32 (take 4 (drop 4 (take hs bs))) /\ dsize <> 0
    /\ hs + dsize + 2 <= len bs /\ rest = drop (hs + dsize + 2) bs.
Proof.
  unfold integrity_sequence, integrity_sequence_gen. cbn [andb orb]. destruct bs as [|hs r]; [discriminate|]. cbn [nth_opt].
  destruct (negb ((hs =? 12) || (hs =? 14))) eqn:Eh; [discriminate|].
  destruct (len (hs :: r) <? hs); [discriminate|].
  destruct (negb (beq _ fit_tag)); [discriminate|].
  destruct (le32 _ =? 0) eqn:Ed; [discriminate|].
  destruct (negb _ && negb _); [discriminate|].
  destruct (len (hs :: r) <? _) eqn:El; [discriminate|].
  destruct (_ =? crc_of _); [|discriminate].
  intros H. injection H as <-. exists hs, (le32 (take 4 (drop 4 (take hs (hs :: r))))).
  repeat split; first [reflexivity | lia].
Qed.

Lemma take_firstn_prefix {A} n k (l : list A) : n <= N.of_nat k -> take n (firstn k l) = take n l.
Proof. intros H. unfold take. rewrite firstn_firstn. f_equal. lia. Qed.

(* ---- truncation: no proper prefix of an accepted single sequence is accepted *)
Theorem truncation_rejected bs k : integrity_sequence bs = Some [] -> (k < length bs)%nat ->
  integrity_sequence (firstn k bs) = None.
Proof.
  intros Hok Hk. destruct (integrity_sequence_shape _ _ Hok) as (hs & dsize & Hhs & H0 & Hd & Hdz & Hlen & Hrest).
  assert (Hexact : len bs = hs + dsize + 2).
  { symmetry in Hrest. apply (f_equal (@length N)) in Hrest. unfold drop in Hrest. rewrite skipn_length in Hrest. cbn in Hrest. unfold len in *. lia. }
  destruct bs as [|b0 r]; [discriminate|]. cbn [nth_opt] in H0. injection H0 as ->.
  destruct k as [|k]; [reflexivity|]. cbn [firstn]. unfold integrity_sequence, integrity_sequence_gen. cbn [andb orb].
  destruct (negb ((hs =? 12) || (hs =? 14))); [reflexivity|].
  destruct (len (hs :: firstn k r) <? hs) eqn:E1; [reflexivity|].
  assert (Hkh : hs <= N.of_nat (S k)).
  { unfold len in E1. cbn [length] in E1. rewrite firstn_length in E1. cbn [length] in Hk. lia. }
  change (hs :: firstn k r) with (firstn (S k) (hs :: r)).
  rewrite (take_firstn_prefix hs (S k) (hs :: r) Hkh).
  destruct (negb (beq _ fit_tag)); [reflexivity|].
  rewrite <- Hd. destruct (dsize =? 0); [reflexivity|].
  destruct (negb _ && negb _); [reflexivity|].
  assert (Hshort : len (firstn (S k) (hs :: r)) <? hs + dsize + 2 = true).
  { unfold len in *. rewrite firstn_length. lia. }
  rewrite Hshort. reflexivity.
Qed.

(* ---- appended bytes: an accepted sequence followed by anything is read as that sequence followed by the suffix *)
Lemma take_app_prefix {A} n (l s : list A) : n <= len l -> take n (l ++ s) = take n l.
Proof. intros H. unfold take, len in *. rewrite firstn_app. replace (N.to_nat n - length l)%nat with 0%nat by lia. cbn. apply app_nil_r. Qed.
Lemma drop_app_prefix {A} n (l s : list A) : n <= len l -> drop n (l ++ s) = drop n l ++ s.
Proof. intros H. unfold drop, len in *. rewrite skipn_app. replace (N.to_nat n - length l)%nat with 0%nat by lia. reflexivity. Qed.

Theorem append_reads_suffix bs suf : integrity_sequence bs = Some [] -> integrity_sequence (bs ++ suf) = Some suf.
Proof.
  intros Hok. destruct (integrity_sequence_shape _ _ Hok) as (hs & dsize & Hhs & H0 & Hd & Hdz & Hlen & Hrest).
  assert (Hexact : len bs = hs + dsize + 2).
  { symmetry in Hrest. apply (f_equal (@length N)) in Hrest. unfold drop in Hrest. rewrite skipn_length in Hrest. cbn in Hrest. unfold len in *. lia. }
  destruct bs as [|b0 r]; [discriminate|]. cbn [nth_opt] in H0. injection H0 as ->.
  revert Hok. unfold integrity_sequence, integrity_sequence_gen. cbn [andb orb app].
  change (hs :: r ++ suf) with ((hs :: r) ++ suf).
  destruct (negb ((hs =? 12) || (hs =? 14))); [discriminate|].
  destruct (len (hs :: r) <? hs) eqn:E1; [discriminate|].
  assert (E1' : len ((hs :: r) ++ suf) <? hs = false) by (rewrite len_app'; lia).
  rewrite E1'. rewrite (take_app_prefix hs (hs :: r) suf) by lia.
  destruct (negb (beq _ fit_tag)); [discriminate|].
  rewrite <- Hd. destruct (dsize =? 0); [discriminate|].
  destruct (negb _ && negb _); [discriminate|].
  destruct (len (hs :: r) <? hs + dsize + 2) eqn:E2; [discriminate|].
  assert (E2' : len ((hs :: r) ++ suf) <? hs + dsize + 2 = false) by (rewrite len_app'; lia).
  rewrite E2'.
  rewrite (drop_app_prefix (hs + dsize) (hs :: r) suf) by lia.
  rewrite (take_app_prefix (hs + dsize) (hs :: r) suf) by lia.
  assert (Ht : take 2 (drop (hs + dsize) (hs :: r) ++ suf) = take 2 (drop (hs + dsize) (hs :: r))).
  { apply take_app_prefix. unfold len, drop. rewrite skipn_length. unfold len in Hexact. lia. }
  rewrite Ht. destruct (_ =? crc_of _); [|discriminate]. intros _.
  rewrite (drop_app_prefix (hs + dsize + 2) (hs :: r) suf) by lia. rewrite <- Hrest. reflexivity.
Qed.
