(* C01 with the decoder's checksum verification ON or OFF (the default is on): the sequence-level round-trip theorems of
   Proofs/RoundtripDev.v (normal headers, developer fields) and Proofs/RoundtripComp.v (compressed-timestamp headers) for every
   decoder option set with component expansion off.  With verification on, the header CRC the encoder wrote is the CRC of the
   header's first 12 bytes, every record byte is hashed while it is decoded (Proofs/DecodeCrc.v) and the running value meets the
   stored file CRC, so neither check fails. *)
From Coq Require Import NArith ZArith List Lia Bool ZifyN ZifyNat ZifyBool.
Import ListNotations.
From Fit Require Import Model.Encoder Proofs.CrcProofs Proofs.ValueProofs Proofs.EncoderProofs Proofs.AcceptProofs Proofs.IntegrityModel Proofs.GrammarProofs
  Proofs.TimestampProofs Proofs.DecoderWire Proofs.DecodeCrc Proofs.RoundtripSeq Proofs.RoundtripComp Proofs.RoundtripDev Proofs.RoundtripChain.
Open Scope N_scope.
#[local] Arguments N.add : simpl never.
#[local] Arguments N.mul : simpl never.
#[local] Arguments N.sub : simpl never.
#[local] Opaque write le_bytes.

Lemma in_firstn {A} n : forall (l : list A) x, In x (firstn n l) -> In x l.
Proof. induction n as [|n IH]; intros [|y l] x H; cbn [firstn] in H; try contradiction. destruct H as [->|H]; [left; reflexivity|right; apply IH; exact H]. Qed.

(* the running CRC after the records of a sequence, whatever they were decoded as *)
Lemma crc_after_records dc fuel s1 s2 records rest : bufok s1 -> s_cur s1 < 4294967296 -> s_crc s1 = 0 ->
  decode_messages fuel dc s1 = Ok s2 -> s_rest s1 = records ++ rest -> s_rest s2 = rest ->
  s_crc s2 = if c_checksum dc then write 0 records else 0.
Proof.
  intros Hb Hc Hcrc D R1 R2. pose proof (decode_messages_hashed dc fuel s1 Hb Hc) as W. rewrite D in W.
  destruct W as (k & (K1 & K2 & _ & _ & _ & K6) & _). rewrite R1 in K1, K2, K6. rewrite R2 in K2.
  assert (Hk : k = len records).
  { apply (f_equal (@len N)) in K2. rewrite len_drop', RawProofs.len_app' in K2. rewrite RawProofs.len_app' in K1. lia. }
  subst k. rewrite K6, Hcrc. destruct (c_checksum dc); [|reflexivity]. rewrite take_app_len. reflexivity.
Qed.

Definition boundary_ck (s : dstate) : Prop := boundary_d s /\ s_crc s = 0.

Lemma one_sequence_any c f r dc s tail :
  e_compressed c = false -> c_expand dc = false -> 765 <= c_bufsize dc ->
  encode_fit c f = Ok r -> msgs_rtd (e_big c) [] (er_msgs r) -> len (er_bytes r) < 4294967296 -> bytes_ok (er_bytes r) ->
  boundary_ck s -> s_rest s = er_bytes r ++ tail ->
  exists ft s', decode_one dc s = Ok (ft, s') /\ map content (fit_msgs ft) = map content (er_msgs r) /\ boundary_ck s' /\ s_rest s' = tail.
Proof.
  intros Hcomp Hex Hbuf Henc Hrt Hlen Hok [[(Hb0 & Hc0 & Hd0 & Hm0 & _ & _) Hf0] Hcrc0] Hrest.
  destruct (encode_fit_inv2 c f r Henc) as (hb & records & st & ver & pv & Hbytes & Hem & Hne & (Hhlen & Hh12) & Hfcrc & Hhcrc).
  set (hsize := if ef_hsize f =? 12 then 12 else 14) in *.
  assert (Hsz : hsize = 12 \/ hsize = 14) by (unfold hsize; destruct (ef_hsize f =? 12); auto).
  assert (Hsz16 : (0 < length (l_items (es_lru (es_init c))) <= 16)%nat).
  { unfold es_init, lru_init, local_types. cbn [es_lru l_items]. rewrite repeat_length, Hcomp. lia. }
  destruct (messages_rtd c dc Hcomp Hex Hbuf (er_msgs r) (es_init c) [] records st [] Hrt (linv_init _) Hsz16 Hem) as (recs & Hrec & Hdec).
  cbn [app] in Hrec. subst recs.
  destruct (encode_messages_acc _ _ _ _ _ _ Hem) as (x & Hx & Hds & _). cbn [app] in Hx. subst x.
  cbn [es_init es_datasize] in Hds. rewrite N.add_0_l in Hds.
  pose proof (datasize_small c _ _ _ _ _ Hem ltac:(cbn; lia)) as Hsmall.
  assert (Hlr : len records < 4294967296) by (rewrite Hbytes, !len_app in Hlen; lia).
  assert (Hdsz : es_datasize st = len records) by (rewrite <- (RoundtripSeq.wrap32_small (es_datasize st) Hsmall), Hds; apply RoundtripSeq.wrap32_small; exact Hlr).
  assert (Hrne : len records <> 0).
  { destruct (er_msgs r) as [|m0 ms0]; [contradiction|]. cbn [encode_messages] in Hem. unfold bind in Hem.
    destruct (encode_message c (es_init c) m0) as [[b0 st0]| | |] eqn:E0; try discriminate.
    pose proof (encode_message_nonempty _ _ _ _ _ E0) as Hb0'. destruct (encode_messages_acc _ _ _ _ _ _ Hem) as (x & -> & _).
    cbn [app]. rewrite len_app. destruct b0; [contradiction|unfold len; cbn [length]; lia]. }
  rewrite Hbytes in Hok. apply Forall_app in Hok. destruct Hok as [Hokh Hok]. apply Forall_app in Hok. destruct Hok as [Hokr _].
  assert (Hok12 : bytes_ok (firstn 12 hb)) by (apply Forall_forall; intros x Hx; rewrite Forall_forall in Hokh; apply Hokh; apply (in_firstn 12 hb); exact Hx).
  rewrite Hbytes in Hrest. rewrite <- !app_assoc in Hrest.
  assert (Hhc14 : hsize = 14 -> skipn 12 hb = le_bytes 2 (write 0 (firstn 12 hb))) by (unfold hsize; destruct (ef_hsize f =? 12) eqn:E12; [discriminate|intros _; apply Hhcrc; reflexivity]).
  destruct (header_total_any dc s hb (records ++ le_bytes 2 (er_crc r) ++ tail) hsize ver pv (es_datasize st) Hbuf Hb0 Hcrc0 Hrest Hhlen Hsz Hh12 Hhc14 Hok12 Hsmall ltac:(lia))
    as (s1 & D1 & R1 & B1 & C1 & F1 & M1 & H1 & Cr1).
  assert (Hf1 : s_fdescs s1 = []) by (pose proof (header_fdescs dc s) as W; rewrite D1 in W; rewrite W; exact Hf0).
  destruct (Hdec s1 (le_bytes 2 (er_crc r) ++ tail) (S (length (s_rest s1)))) as (s2 & D2 & R2 & B2 & H2 & M2).
  { exact Hf1. }
  { rewrite F1, Hd0. apply dinvd_init. }
  { rewrite F1, Hd0. reflexivity. }
  { exact R1. }
  { exact B1. }
  { rewrite C1, Hc0, H1, Hdsz. reflexivity. }
  { rewrite H1. exact Hsmall. }
  { rewrite R1, app_length. lia. }
  pose proof (crc_after_records dc _ s1 s2 records _ B1 ltac:(rewrite C1, Hc0; lia) Cr1 D2 R1 R2) as Hcrc2.
  assert (Hl2 : len (le_bytes 2 (er_crc r)) = 2) by (unfold len; rewrite le_bytes_length; reflexivity).
  destruct (read_raw_ok dc s2 2 B2 ltac:(lia) Hbuf) as (s3 & E3 & R3 & B3 & _ & _ & Cr3 & H3 & K3); [rewrite R2, len_app, Hl2; lia|].
  assert (Hb2 : take 2 (s_rest s2) = le_bytes 2 (er_crc r)) by (rewrite R2; replace 2 with (len (le_bytes 2 (er_crc r))) by exact Hl2; apply take_app_len).
  assert (Hcrcv : le_word (le_bytes 2 (er_crc r)) = er_crc r).
  { apply le_roundtrip. rewrite Hfcrc. change (256 ^ N.of_nat 2) with 65536. apply (C18_state_bounded records Hokr). }
  assert (Hchk : (c_checksum dc && negb (s_crc s3 =? le_word (take 2 (s_rest s2)))) = false).
  { rewrite Cr3, Hcrc2, Hb2, Hcrcv, Hfcrc. destruct (c_checksum dc); [rewrite N.eqb_refl|]; reflexivity. }
  eexists. eexists. split.
  - unfold decode_one, bind. rewrite D1, D2. unfold decode_crc, bind. rewrite E3, Hchk. reflexivity.
  - cbn [fit_msgs snd fst]. split.
    + rewrite map_rev. destruct K3 as (_ & _ & _ & _ & _ & _ & _ & _ & K3m & _). cbn [push_event upd_crc upd_read s_msgs]. rewrite K3m, M2, M1, Hm0. cbn [map]. rewrite app_nil_r, rev_involutive. reflexivity.
    + split; [split; [split; [apply reset_seq_boundary; exact B3|reflexivity]|reflexivity]|]. cbn [reset_seq push_event upd_crc upd_read s_rest].
      rewrite R3, R2. replace 2 with (len (le_bytes 2 (er_crc r))) by exact Hl2. apply drop_app_len.
Qed.

Definition boundary_cc (s : dstate) : Prop := boundary_state s /\ s_crc s = 0.

Lemma one_sequence_c_any c f r dc s tail :
  e_compressed c = true -> encoder_tracks_last_timestamp = true -> c_expand dc = false -> 765 <= c_bufsize dc ->
  encode_fit c f = Ok r -> Forall (msg_rtc (e_big c)) (er_msgs r) -> len (er_bytes r) < 4294967296 -> bytes_ok (er_bytes r) ->
  boundary_cc s -> s_rest s = er_bytes r ++ tail ->
  exists ft s', decode_one dc s = Ok (ft, s') /\ Forall2 msg_sim (fit_msgs ft) (er_msgs r) /\ boundary_cc s' /\ s_rest s' = tail.
Proof.
  intros Hcomp Hflag Hex Hbuf Henc Hrt Hlen Hok [(Hb0 & Hc0 & Hd0 & Hm0 & Hts0 & Hlto0) Hcrc0] Hrest.
  destruct (encode_fit_inv2 c f r Henc) as (hb & records & st & ver & pv & Hbytes & Hem & Hne & (Hhlen & Hh12) & Hfcrc & Hhcrc).
  set (hsize := if ef_hsize f =? 12 then 12 else 14) in *.
  assert (Hsz : hsize = 12 \/ hsize = 14) by (unfold hsize; destruct (ef_hsize f =? 12); auto).
  assert (Hsz4 : (0 < length (l_items (es_lru (es_init c))) <= 4)%nat).
  { unfold es_init, lru_init, local_types. cbn [es_lru l_items]. rewrite repeat_length, Hcomp. lia. }
  destruct (messages_rtc c dc Hcomp Hflag Hex Hbuf (er_msgs r) (es_init c) [] records st Hrt (linv_init _) Hsz4 Hem) as (recs & Hrec & Hdec).
  cbn [app] in Hrec. subst recs.
  destruct (encode_messages_acc _ _ _ _ _ _ Hem) as (x & Hx & Hds & _). cbn [app] in Hx. subst x.
  cbn [es_init es_datasize] in Hds. rewrite N.add_0_l in Hds.
  pose proof (datasize_small c _ _ _ _ _ Hem ltac:(cbn; lia)) as Hsmall.
  assert (Hlr : len records < 4294967296) by (rewrite Hbytes, !len_app in Hlen; lia).
  assert (Hdsz : es_datasize st = len records) by (rewrite <- (RoundtripSeq.wrap32_small (es_datasize st) Hsmall), Hds; apply RoundtripSeq.wrap32_small; exact Hlr).
  assert (Hrne : len records <> 0).
  { destruct (er_msgs r) as [|m0 ms0]; [contradiction|]. cbn [encode_messages] in Hem. unfold bind in Hem.
    destruct (encode_message c (es_init c) m0) as [[b0 st0]| | |] eqn:E0; try discriminate.
    pose proof (encode_message_nonempty _ _ _ _ _ E0) as Hb0'. destruct (encode_messages_acc _ _ _ _ _ _ Hem) as (x & -> & _).
    cbn [app]. rewrite len_app. destruct b0; [contradiction|unfold len; cbn [length]; lia]. }
  rewrite Hbytes in Hok. apply Forall_app in Hok. destruct Hok as [Hokh Hok]. apply Forall_app in Hok. destruct Hok as [Hokr _].
  assert (Hok12 : bytes_ok (firstn 12 hb)) by (apply Forall_forall; intros x Hx; rewrite Forall_forall in Hokh; apply Hokh; apply (in_firstn 12 hb); exact Hx).
  rewrite Hbytes in Hrest. rewrite <- !app_assoc in Hrest.
  assert (Hhc14 : hsize = 14 -> skipn 12 hb = le_bytes 2 (write 0 (firstn 12 hb))) by (unfold hsize; destruct (ef_hsize f =? 12) eqn:E12; [discriminate|intros _; apply Hhcrc; reflexivity]).
  destruct (header_total_any dc s hb (records ++ le_bytes 2 (er_crc r) ++ tail) hsize ver pv (es_datasize st) Hbuf Hb0 Hcrc0 Hrest Hhlen Hsz Hh12 Hhc14 Hok12 Hsmall ltac:(lia))
    as (s1 & D1 & R1 & B1 & C1 & F1 & M1 & H1 & Cr1).
  assert (Hclk1 : clk s1 = (0, 0)) by (pose proof (header_clk dc s) as W; rewrite D1 in W; rewrite W; unfold clk; rewrite Hts0, Hlto0; reflexivity).
  destruct (Hdec s1 (le_bytes 2 (er_crc r) ++ tail) (S (length (s_rest s1)))) as (s2 & decoded & D2 & R2 & B2 & H2 & M2 & F2).
  { rewrite F1, Hd0. apply dinv_init. }
  { rewrite F1, Hd0. reflexivity. }
  { rewrite F1, Hd0. intros i d Hd. exfalso. unfold no_defs in Hd. destruct (Nat.lt_ge_cases i 16) as [Hi|Hi]; [rewrite nth_repeat in Hd|rewrite nth_overflow in Hd by (rewrite repeat_length; exact Hi)]; discriminate. }
  { rewrite Hclk1. unfold R, W32. cbn. repeat split; lia. }
  { exact R1. }
  { exact B1. }
  { rewrite C1, Hc0, H1, Hdsz. reflexivity. }
  { rewrite H1. exact Hsmall. }
  { rewrite R1, app_length. lia. }
  pose proof (crc_after_records dc _ s1 s2 records _ B1 ltac:(rewrite C1, Hc0; lia) Cr1 D2 R1 R2) as Hcrc2.
  assert (Hl2 : len (le_bytes 2 (er_crc r)) = 2) by (unfold len; rewrite le_bytes_length; reflexivity).
  destruct (read_raw_ok dc s2 2 B2 ltac:(lia) Hbuf) as (s3 & E3 & R3 & B3 & _ & _ & Cr3 & H3 & K3); [rewrite R2, len_app, Hl2; lia|].
  assert (Hb2 : take 2 (s_rest s2) = le_bytes 2 (er_crc r)) by (rewrite R2; replace 2 with (len (le_bytes 2 (er_crc r))) by exact Hl2; apply take_app_len).
  assert (Hcrcv : le_word (le_bytes 2 (er_crc r)) = er_crc r).
  { apply le_roundtrip. rewrite Hfcrc. change (256 ^ N.of_nat 2) with 65536. apply (C18_state_bounded records Hokr). }
  assert (Hchk : (c_checksum dc && negb (s_crc s3 =? le_word (take 2 (s_rest s2)))) = false).
  { rewrite Cr3, Hcrc2, Hb2, Hcrcv, Hfcrc. destruct (c_checksum dc); [rewrite N.eqb_refl|]; reflexivity. }
  eexists. eexists. split.
  - unfold decode_one, bind. rewrite D1, D2. unfold decode_crc, bind. rewrite E3, Hchk. reflexivity.
  - cbn [fit_msgs snd fst]. split.
    + destruct K3 as (_ & _ & _ & _ & _ & _ & _ & _ & K3m & _). cbn [push_event upd_crc upd_read s_msgs]. rewrite K3m, M2, M1, Hm0. rewrite app_nil_r, rev_involutive. exact F2.
    + split; [split; [apply reset_seq_boundary; exact B3|reflexivity]|]. cbn [reset_seq push_event upd_crc upd_read s_rest].
      rewrite R3, R2. replace 2 with (len (le_bytes 2 (er_crc r))) by exact Hl2. apply drop_app_len.
Qed.

(* ---------------------------------------------------------------- single and chained files, every decoder option set without expansion *)
Theorem roundtrip_any c dc fs out : e_compressed c = false -> c_expand dc = false -> 765 <= c_bufsize dc ->
  fs <> [] -> encode_fits c fs [] = Ok out ->
  exists rs, Forall2 (fun f r => encode_fit c f = Ok r) fs rs /\ out = concat (map er_bytes rs) /\
    (Forall (fun r => msgs_rtd (e_big c) [] (er_msgs r) /\ len (er_bytes r) < 4294967296 /\ bytes_ok (er_bytes r)) rs ->
     exists fts, decode_stream dc out = Ok fts /\ Forall2 (fun ft r => map content (fit_msgs ft) = map content (er_msgs r)) fts rs).
Proof.
  intros Hcomp Hex Hbuf Hne Henc. destruct (encode_fits_concat c fs [] out Henc) as (rs & HF & Hout). cbn [app] in Hout.
  exists rs. split; [exact HF|]. split; [exact Hout|]. intros Hgood. subst out.
  apply (chain_roundtrip dc (fun r => (exists f, encode_fit c f = Ok r) /\ msgs_rtd (e_big c) [] (er_msgs r) /\ len (er_bytes r) < 4294967296 /\ bytes_ok (er_bytes r))
           (fun ms' ms => map content ms' = map content ms) boundary_ck).
  - intros bs. unfold boundary_ck, boundary_d, boundary_state, bufok. cbn. repeat split; lia.
  - intros r s tail ((f & Hf) & Hm & Hl & Hk) Hb Hr. apply (one_sequence_any c f r dc s tail); assumption.
  - intros r ((f & Hf) & _). eapply encode_fit_nonempty; exact Hf.
  - destruct rs; [inversion HF; subst; contradiction|discriminate].
  - clear Hne Henc. induction HF as [|f r fs rs Hfr HF IH]; [constructor|]. inversion Hgood as [|? ? (H1 & H2 & H2') H3]; subst.
    constructor; [split; [exists f; exact Hfr|split; [assumption|split; assumption]]|apply IH; exact H3].
Qed.

Theorem roundtrip_compressed_any c dc fs out : e_compressed c = true -> encoder_tracks_last_timestamp = true -> c_expand dc = false -> 765 <= c_bufsize dc ->
  fs <> [] -> encode_fits c fs [] = Ok out ->
  exists rs, Forall2 (fun f r => encode_fit c f = Ok r) fs rs /\ out = concat (map er_bytes rs) /\
    (Forall (fun r => Forall (msg_rtc (e_big c)) (er_msgs r) /\ len (er_bytes r) < 4294967296 /\ bytes_ok (er_bytes r)) rs ->
     exists fts, decode_stream dc out = Ok fts /\ Forall2 (fun ft r => Forall2 msg_sim (fit_msgs ft) (er_msgs r)) fts rs).
Proof.
  intros Hcomp Hflag Hex Hbuf Hne Henc. destruct (encode_fits_concat c fs [] out Henc) as (rs & HF & Hout). cbn [app] in Hout.
  exists rs. split; [exact HF|]. split; [exact Hout|]. intros Hgood. subst out.
  apply (chain_roundtrip dc (fun r => (exists f, encode_fit c f = Ok r) /\ Forall (msg_rtc (e_big c)) (er_msgs r) /\ len (er_bytes r) < 4294967296 /\ bytes_ok (er_bytes r))
           (fun ms' ms => Forall2 msg_sim ms' ms) boundary_cc).
  - intros bs. unfold boundary_cc, boundary_state, bufok. cbn. repeat split; lia.
  - intros r s tail ((f & Hf) & Hm & Hl & Hk) Hb Hr. apply (one_sequence_c_any c f r dc s tail); assumption.
  - intros r ((f & Hf) & _). eapply encode_fit_nonempty; exact Hf.
  - destruct rs; [inversion HF; subst; contradiction|discriminate].
  - clear Hne Henc. induction HF as [|f r fs rs Hfr HF IH]; [constructor|]. inversion Hgood as [|? ? (H1 & H2 & H2') H3]; subst.
    constructor; [split; [exists f; exact Hfr|split; [assumption|split; assumption]]|apply IH; exact H3].
Qed.
