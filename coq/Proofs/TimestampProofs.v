(* C01, compressed timestamps: the encoder's decision (Model/Encoder.v compress_timestamp, following the source's rule) and
   the decoder's clock (Model/Decoder.v clock_compressed / clock_full) agree on every sequence of optional uint32 timestamps
   -- wrap-around, invalid and pre-DateTimeMin values included. *)
From Coq Require Import NArith ZArith List Lia Bool ZifyN ZifyNat ZifyBool.
Import ListNotations.
From Fit Require Import Model.Encoder.
Open Scope N_scope.
Ltac Zify.zify_post_hook ::= Z.div_mod_to_equations.

Definition W32 : N := 4294967296.
Lemma land31 x : N.land x 31 = x mod 32.
Proof. change 31 with (N.ones 5). apply N.land_ones. Qed.
Lemma mask_is_31 : CompressedTimeMask = 31. Proof. reflexivity. Qed.

Lemma reconstruct t ts : t < W32 -> ts < W32 -> (ts + W32 - t) mod W32 <= 31 ->
  (t + (((ts mod 32 + 256 - t mod 32) mod 256) mod 32)) mod W32 = ts.
Proof. unfold W32. intros Ht Hts Hd. lia. Qed.

(* the decoder's clock after a message, given what went on the wire *)
Inductive wire := NoTs | Full (ts : N) | Compressed (header : N).
Definition dec_clock (ck : N * N) (w : wire) : option N * (N * N) :=
  match w with
  | NoTs => (None, ck)
  | Full ts => (Some ts, clock_full ts)
  | Compressed h => let ck' := clock_compressed (fst ck) (snd ck) h in (Some (fst ck'), ck')
  end.
(* what the encoder puts on the wire for a message *)
Definition enc_wire (tsref lastts : N) (m : message) : wire * N * N :=
  let '(cmp, tsref', lastts') := compress_timestamp tsref lastts m in
  (match cmp with Some (h, _) => Compressed h | None => match ts_field_u32 m with Some ts => Full ts | None => NoTs end end, tsref', lastts').

Definition ts_ok (m : message) : Prop := match ts_field_u32 m with Some ts => ts < W32 | None => True end.
(* encoder's last written timestamp = decoder's clock; the decoder's offset is the clock's low five bits *)
Definition R (lastts : N) (ck : N * N) : Prop := lastts = fst ck /\ snd ck = fst ck mod 32 /\ fst ck < W32.

Lemma step_sim : encoder_tracks_last_timestamp = true -> forall tsref lastts ck m, R lastts ck -> ts_ok m ->
  let '(w, _, lastts') := enc_wire tsref lastts m in
  let '(o, ck') := dec_clock ck w in
  o = ts_field_u32 m /\ R lastts' ck'.
Proof.
  intros Hflag tsref lastts [T L] m (Hl & HL & HT) Hm. cbn [fst snd] in *. subst lastts L.
  unfold enc_wire, compress_timestamp. rewrite Hflag. unfold ts_ok in Hm.
  destruct (ts_field_u32 m) as [ts|]; [|cbn; unfold R; auto].
  destruct (ts =? 4294967295) eqn:E1.
  { cbn. unfold R, clock_full. cbn. rewrite mask_is_31, land31. auto. }
  destruct (ts <? DateTimeMin) eqn:E2.
  { cbn. unfold R, clock_full. cbn. rewrite mask_is_31, land31. auto. }
  destruct (CompressedTimeMask <? wrap 32 (ts + 4294967296 - tsref)) eqn:E3.
  { cbn. unfold R, clock_full. cbn. rewrite mask_is_31, land31. auto. }
  destruct (CompressedTimeMask <? wrap 32 (ts + 4294967296 - T)) eqn:E4.
  { cbn. unfold R, clock_full. cbn. rewrite mask_is_31, land31. auto. }
  cbn [dec_clock fst snd]. unfold clock_compressed. cbn [fst snd]. rewrite mask_is_31 in *.
  assert (Hh : N.land (N.lor MesgCompressedHeaderMask (N.land ts 31)) 31 = ts mod 32).
  { change MesgCompressedHeaderMask with 128.
    assert (Hb : ts mod 32 < 32) by (apply N.mod_upper_bound; discriminate).
    rewrite N.land_lor_distr_l. change (N.land 128 31) with 0. rewrite N.lor_0_l, !land31. rewrite N.mod_mod by discriminate. reflexivity. }
  rewrite Hh. unfold wrap in *. change (2 ^ 32) with W32 in *. change (2 ^ 8) with 256. change 4294967296 with W32 in *.
  rewrite land31.
  assert (Hd : (ts + W32 - T) mod W32 <= 31) by lia.
  rewrite (reconstruct T ts HT Hm Hd). unfold R. cbn [fst snd]. auto.
Qed.

(* whole sequences of messages *)
Fixpoint run_enc (tsref lastts : N) (ms : list message) : list wire :=
  match ms with [] => [] | m :: r => let '(w, tsref', lastts') := enc_wire tsref lastts m in w :: run_enc tsref' lastts' r end.
Fixpoint run_dec (ck : N * N) (ws : list wire) : list (option N) :=
  match ws with [] => [] | w :: r => let '(o, ck') := dec_clock ck w in o :: run_dec ck' r end.

Theorem timestamps_roundtrip : encoder_tracks_last_timestamp = true -> forall ms tsref lastts ck, R lastts ck -> Forall ts_ok ms ->
  run_dec ck (run_enc tsref lastts ms) = map ts_field_u32 ms.
Proof.
  intros Hflag. induction ms as [|m ms IH]; intros tsref lastts ck HR Hall; [reflexivity|].
  inversion Hall as [|? ? Hm Hms]; subst.
  pose proof (step_sim Hflag tsref lastts ck m HR Hm) as Hs.
  cbn [run_enc map]. destruct (enc_wire tsref lastts m) as [[w tsref'] lastts'] eqn:Ee. cbn [run_dec].
  destruct (dec_clock ck w) as [o ck'] eqn:Ed. destruct Hs as [-> HR']. f_equal. apply IH; assumption.
Qed.

Corollary timestamps_roundtrip_init : encoder_tracks_last_timestamp = true -> forall ms, Forall ts_ok ms ->
  run_dec (0, 0) (run_enc 0 0 ms) = map ts_field_u32 ms.
Proof. intros Hflag ms H. apply timestamps_roundtrip; [exact Hflag| |exact H]. unfold R, W32. cbn. repeat split; lia. Qed.
