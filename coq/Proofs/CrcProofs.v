(* C18: the nibble-table update equals the bit-serial CRC-16 for every state and byte; the checksum
   of a byte string does not depend on how it is split into writes. *)
From Coq Require Import NArith List Lia Bool.
Import ListNotations.
From Fit Require Import Model.Crc.
Open Scope N_scope.

Lemma in_range k : forall s x, s <= x < s + N.of_nat k -> In x (range k s).
Proof. induction k as [|k IH]; intros s x H; cbn [range]; [lia|].
  destruct (N.eq_dec s x) as [->|Hne]; [left; reflexivity|right]. apply IH. lia. Qed.
Lemma in_Nrange n x : x < n -> In x (Nrange n).
Proof. intros H. apply in_range. rewrite N2Nat.id. lia. Qed.

Definition nib_check (c n : N) := N.eqb (nib c n) (crc_bits c (bits_of 4 n)) && N.ltb (nib c n) 65536.
Lemma nibble_sweep : forallb (fun c => forallb (nib_check c) (Nrange 16)) (Nrange 65536) = true.
Proof. vm_compute. reflexivity. Qed.

Lemma nibble_ok c n : c < 65536 -> n < 16 -> nib c n = crc_bits c (bits_of 4 n) /\ nib c n < 65536.
Proof.
  intros Hc Hn. pose proof nibble_sweep as H. rewrite forallb_forall in H.
  specialize (H c (in_Nrange _ _ Hc)). rewrite forallb_forall in H. specialize (H n (in_Nrange _ _ Hn)).
  unfold nib_check in H. apply andb_prop in H. destruct H as [H1 H2].
  split; [apply N.eqb_eq; exact H1 | apply N.ltb_lt; exact H2].
Qed.

Lemma byte_bits_sweep :
  forallb (fun b => if list_eq_dec N.eq_dec (bits_of 8 b) (bits_of 4 (N.land b 0xF) ++ bits_of 4 (N.land (N.shiftr b 4) 0xF))
                    then N.ltb (N.land b 0xF) 16 && N.ltb (N.land (N.shiftr b 4) 0xF) 16 else false) (Nrange 256) = true.
Proof. vm_compute. reflexivity. Qed.

Lemma byte_bits b : b < 256 ->
  bits_of 8 b = bits_of 4 (N.land b 0xF) ++ bits_of 4 (N.land (N.shiftr b 4) 0xF)
  /\ N.land b 0xF < 16 /\ N.land (N.shiftr b 4) 0xF < 16.
Proof.
  intros Hb. pose proof byte_bits_sweep as H. rewrite forallb_forall in H. specialize (H b (in_Nrange _ _ Hb)). cbv beta in H.
  destruct (list_eq_dec _ _ _) as [E|]; [|discriminate]. apply andb_prop in H. destruct H as [H1 H2].
  repeat split; [exact E | apply N.ltb_lt; exact H1 | apply N.ltb_lt; exact H2].
Qed.

(* ---- per byte, for every state *)
(* the translated straight-line body is the two-nibble composition (by computation on the generated term) *)
Lemma compute_is_nibbles s b : compute s b = nib (nib s (N.land b 0xF)) (N.land (N.shiftr b 4) 0xF).
Proof. reflexivity. Qed.

Theorem update_spec s b : s < 65536 -> b < 256 -> update s b = crc_bits s (bits_of 8 b) /\ update s b < 65536.
Proof.
  intros Hs Hb. destruct (byte_bits b Hb) as (Hbits & Hlo & Hhi). unfold update. rewrite compute_is_nibbles.
  destruct (nibble_ok s _ Hs Hlo) as [E1 B1]. destruct (nibble_ok _ _ B1 Hhi) as [E2 B2].
  split; [|exact B2]. rewrite E2, E1, Hbits. unfold crc_bits. rewrite fold_left_app. reflexivity.
Qed.

(* ---- for every byte string *)
Lemma write_spec bs : forall s, s < 65536 -> bytes_ok bs ->
  write s bs = crc_bits s (concat (map (bits_of 8) bs)) /\ write s bs < 65536.
Proof.
  induction bs as [|b bs IH]; intros s Hs Hok; cbn [write fold_left map concat]; [split; [reflexivity|exact Hs]|].
  inversion Hok as [|? ? Hb Hrest]; subst. destruct (update_spec s b Hs Hb) as [E B].
  destruct (IH (update s b) B Hrest) as [E' B']. split; [|exact B'].
  unfold write in E'. rewrite E', E. unfold crc_bits. rewrite fold_left_app. reflexivity.
Qed.

Theorem C18_reference bs : bytes_ok bs -> sum16 bs = crc16_arc bs.
Proof. intros H. apply (write_spec bs 0); [reflexivity|exact H]. Qed.

Theorem C18_split s a b : write s (a ++ b) = write (write s a) b.
Proof. unfold write. apply fold_left_app. Qed.

Theorem C18_chunking chunks : fold_left write chunks 0 = sum16 (concat chunks).
Proof.
  unfold sum16. generalize 0 as s. induction chunks as [|c cs IH]; intros s; cbn [fold_left concat]; [reflexivity|].
  rewrite C18_split. apply IH.
Qed.

Theorem C18_state_bounded bs : bytes_ok bs -> sum16 bs < 65536.
Proof. intros H. apply (write_spec bs 0); [reflexivity|exact H]. Qed.

(* check value of CRC-16/ARC for "123456789" is 0xBB3D *)
Example arc_check : sum16 [49;50;51;52;53;54;55;56;57] = 0xBB3D.
Proof. vm_compute. reflexivity. Qed.


(* ---- the hash object as a whole: any script of Write/Sum16/Sum/Reset behaves like the abstract
        object "remember the bytes written since the last reset; a sum is their CRC-16/ARC" *)
Fixpoint spec_run (acc : list N) (ops : list crc_op) : list crc_out :=
  match ops with
  | [] => []
  | OpWrite bs :: r => OutNone :: spec_run (acc ++ bs) r
  | OpSum16 :: r => OutSum16 (crc16_arc acc) :: spec_run acc r
  | OpSum :: r => OutSum (sum_bytes (crc16_arc acc)) :: spec_run acc r
  | OpReset :: r => OutNone :: spec_run [] r
  end.
Definition op_ok (o : crc_op) := match o with OpWrite bs => bytes_ok bs | _ => True end.

Theorem C18_object ops : forall acc, bytes_ok acc -> Forall op_ok ops ->
  crc_run (sum16 acc) ops = spec_run acc ops.
Proof.
  induction ops as [|o ops IH]; intros acc Hacc Hops; [reflexivity|].
  inversion Hops as [|? ? Ho Hr]; subst.
  destruct o as [bs| | |]; cbn [crc_run crc_step spec_run].
  - f_equal. unfold sum16. rewrite <- C18_split. apply IH; [|exact Hr].
    unfold bytes_ok in *. apply Forall_app. split; assumption.
  - rewrite (C18_reference acc Hacc). f_equal. rewrite <- (C18_reference acc Hacc). apply IH; assumption.
  - rewrite (C18_reference acc Hacc). f_equal. rewrite <- (C18_reference acc Hacc). apply IH; assumption.
  - f_equal. apply (IH []); [constructor|exact Hr].
Qed.

Theorem C18_reset ops1 ops2 : Forall op_ok ops2 ->
  skipn (length ops1 + 1) (crc_run 0 (ops1 ++ OpReset :: ops2)) = crc_run 0 ops2.
Proof.
  intros H. generalize 0 at 1 as st. induction ops1 as [|o ops1 IH]; intros st.
  - reflexivity.
  - cbn [app crc_run length Nat.add]. destruct (crc_step st o) as [st' out]. cbn [skipn]. apply IH.
Qed.
