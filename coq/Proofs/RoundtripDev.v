(* C01, sequence level with developer fields (normal headers): a developer field is written with its number, size and developer
   data index; the decoder types it by the FIRST field description with that index and number among the field_description messages
   decoded so far in the sequence (including the message being decoded).  For every list of messages whose fields round-trip at the
   value level and whose developer fields round-trip under the description in force at their position, decoding what the encoder
   wrote yields the same messages: numbers, fields, developer fields (number, index, value), in order.  Generalises
   Proofs/RoundtripSeq.v: definitions with a developer part in the LRU and in the decoder's table, data records with developer
   values after the field values, the description list growing with the decoded messages. *)
From Coq Require Import NArith ZArith List Lia Bool ZifyN ZifyNat ZifyBool.
Import ListNotations.
From Fit Require Import Model.Encoder Proofs.ValueProofs Proofs.EncoderProofs Proofs.AcceptProofs Proofs.IntegrityModel Proofs.GrammarProofs Proofs.DecoderWire Proofs.RoundtripSeq.
Open Scope N_scope.
#[local] Arguments N.add : simpl never.
#[local] Arguments N.mul : simpl never.
#[local] Arguments N.sub : simpl never.

(* ---------------------------------------------------------------- developer fields of one record *)
Definition ddef_of (d : devfield) : ddef := mkdd (df_num d) (wrap 8 (size (df_value d))) (df_idx d).

Definition dev_rt (big : bool) (fds : list fdesc) (d : devfield) : Prop :=
  exists fdsc b, find_fdesc fds (df_idx d) (df_num d) = Some fdsc /\ bt_valid (fdx_base fdsc) = true
    /\ marshal big (df_value d) = Some b /\ 0 < size (df_value d) <= 255 /\ bt_size (fdx_base fdsc) <= size (df_value d)
    /\ unmarshal big (fdx_base fdsc) (N.land (fdx_base fdsc) BaseTypeNumMask)
         (if (fdx_base fdsc =? bt_string) && (fdx_base fdsc =? bt_string) then 1 <? strcount b
          else if bt_size (fdx_base fdsc) <? size (df_value d) then size (df_value d) mod bt_size (fdx_base fdsc) =? 0 else false) b
       = Ok (df_value d).

(* updates that also leave the field descriptions alone *)
Definition gotd (k : N) (s s' : dstate) : Prop := got k s s' /\ s_fdescs s' = s_fdescs s.

Lemma read_n_totald c s n : bufok s -> n <= 765 -> 765 <= c_bufsize c -> n <= len (s_rest s) ->
  exists s', read_n c s n = Ok (take n (s_rest s), s') /\ gotd n s s'.
Proof.
  intros Hb Hn Hc Hl. unfold read_n, bind.
  destruct (read_raw_ok c s n Hb Hn Hc Hl) as (s1 & E & R & B & Nn & Cu & Cr & Hh & Hs). rewrite E.
  eexists. split; [reflexivity|]. unfold gotd, got, bufok, keepsM in *. cbn [upd_read s_rest s_buf s_cur s_defs s_header s_msgs s_fdescs].
  destruct Hs as (A1 & A2 & A3 & A4 & A5 & A6 & A7 & A8 & A9 & A10). rewrite Cu. repeat split; assumption.
Qed.
Lemma gotd_trans k1 k2 s s1 s2 : gotd k1 s s1 -> gotd k2 s1 s2 -> gotd (k1 + k2) s s2.
Proof. intros [A1 A2] [B1 B2]. split; [eapply got_trans; eassumption|congruence]. Qed.

Lemma decode_dev_fields_rt dc big : 765 <= c_bufsize dc ->
  forall ds s out bs tail, Forall (dev_rt big (s_fdescs s)) ds -> marshal_values big (map df_value ds) = Some bs ->
  s_rest s = bs ++ tail -> bufok s -> s_cur s < 4294967296 ->
  exists s', decode_dev_fields dc s (arch_of big) (map ddef_of ds) out = Ok (out ++ ds, s') /\ gotd (len bs) s s'.
Proof.
  intros Hbuf. induction ds as [|d ds IH]; intros s out bs tail Hrt Hm Hrest Hb Hc.
  - cbn [map marshal_values] in Hm. injection Hm as <-. cbn [map decode_dev_fields]. exists s. rewrite app_nil_r. split; [reflexivity|].
    split; [apply got_0; assumption|reflexivity].
  - inversion Hrt as [|? ? Hd Hds]; subst. cbn [map marshal_values] in Hm.
    destruct (marshal big (df_value d)) as [a|] eqn:Ea; [|discriminate].
    destruct (marshal_values big (map df_value ds)) as [b|] eqn:Eb; [|discriminate]. injection Hm as <-.
    destruct Hd as (fdsc & a' & Hfind & Hbt & Ea' & Hsz & Hbs & Hun). rewrite Ea in Ea'. injection Ea' as <-.
    pose proof (size_marshal _ _ _ Ea) as Hla.
    cbn [map decode_dev_fields]. cbn [ddef_of dd_num dd_size dd_idx]. rewrite Hfind, Hbt. cbn [negb].
    rewrite (wrap8_small (size (df_value d))) by lia.
    assert (Hbs0 : bt_size (fdx_base fdsc) <> 0) by (unfold bt_valid in Hbt; apply N.ltb_lt in Hbt; lia).
    assert (Hdv : (if bt_size (fdx_base fdsc) <? size (df_value d) then bt_size_div (size (df_value d)) (fdx_base fdsc) else Ok false)
                  = Ok (if bt_size (fdx_base fdsc) <? size (df_value d) then size (df_value d) mod bt_size (fdx_base fdsc) =? 0 else false)).
    { destruct (bt_size (fdx_base fdsc) <? size (df_value d)); [|reflexivity]. unfold bt_size_div. replace (bt_size (fdx_base fdsc) =? 0) with false by (symmetry; apply N.eqb_neq; exact Hbs0). reflexivity. }
    rewrite Hdv. cbn [bind].
    replace (size (df_value d) =? 0) with false by (symmetry; apply N.eqb_neq; lia).
    replace (size (df_value d) <? bt_size (fdx_base fdsc)) with false by (symmetry; apply N.ltb_ge; lia).
    unfold read_value. rewrite <- app_assoc in Hrest.
    destruct (read_n_totald dc s (size (df_value d)) Hb ltac:(lia) Hbuf) as (s1 & Er & [G1 F1]); [rewrite Hrest, len_app; lia|].
    rewrite Er. cbn [bind]. rewrite Hrest, <- Hla, take_app_len. rewrite <- Hla in Hun. rewrite arch_big, Hun. cbn [bind]. rewrite N.eqb_refl. cbn [negb].
    destruct (IH s1 (out ++ [mkdev (df_num d) (df_idx d) (df_value d)]) b tail) as (s' & Ed & G3).
    + rewrite F1. exact Hds.
    + reflexivity.
    + destruct G1 as (R1 & _). rewrite R1, Hrest, <- Hla, drop_app_len. reflexivity.
    + apply G1.
    + eapply got_cur_small; exact G1.
    + exists s'. split.
      * rewrite Ed. f_equal. f_equal. rewrite <- app_assoc. f_equal. cbn [app]. f_equal. destruct d; reflexivity.
      * rewrite len_app, Hla. eapply gotd_trans; [split; [exact G1|exact F1]|exact G3].
Qed.

(* ---------------------------------------------------------------- definitions with a developer part *)
Definition def_rt96 (d : mdef) : Prop :=
  md_header d = 96 /\ md_reserved d = 0 /\ md_num d < 65536 /\ (length (md_fields d) <= 255)%nat /\ (0 < length (md_devs d) <= 255)%nat
  /\ Forall (fun f => bt_valid (fd_base f) = true) (md_fields d).
Definition def_rtd (d : mdef) : Prop := def_rt d \/ def_rt96 d.

Definition def96_hdr_ok (i : N) : bool :=
  (N.land (N.lor 96 i) (N.lor MesgCompressedHeaderMask MesgDefinitionMask) =? MesgDefinitionMask) && has (N.lor 96 i) DevDataMask
  && (N.land (N.lor 96 i) LocalMesgNumMask =? i).
Lemma hdr96_sweep : forallb def96_hdr_ok (nrange 16 0) = true. Proof. vm_compute. reflexivity. Qed.
Lemma hdr96_facts i : i < 16 -> def96_hdr_ok i = true.
Proof. intros H. pose proof hdr96_sweep as Hs. rewrite forallb_forall in Hs. exact (Hs i (in_nrange 16 0 i ltac:(lia))). Qed.

Lemma parse_dtriples : forall ds fuel, (length ds <= fuel)%nat -> parse_ddefs fuel (dtriples ds) = ds.
Proof.
  induction ds as [|d ds IH]; intros fuel Hl.
  - destruct fuel; reflexivity.
  - destruct fuel as [|fuel]; [cbn [length] in Hl; lia|].
    change (dtriples (d :: ds)) with (dd_num d :: dd_size d :: dd_idx d :: dtriples ds). cbn [parse_ddefs].
    rewrite (IH fuel) by (cbn [length] in Hl; lia). destruct d; reflexivity.
Qed.
Lemma dtriples_inj : forall a b, dtriples a = dtriples b -> a = b.
Proof.
  induction a as [|x a IH]; intros [|y b] H; try reflexivity; try discriminate.
  change (dtriples (x :: a)) with (dd_num x :: dd_size x :: dd_idx x :: dtriples a) in H.
  change (dtriples (y :: b)) with (dd_num y :: dd_size y :: dd_idx y :: dtriples b) in H.
  injection H as H1 H2 H3 H4. f_equal; [destruct x, y; cbn in *; congruence|apply IH; exact H4].
Qed.

Lemma marshal_def_rt96 d : def_rt96 d -> exists e0 e1, enc (negb (md_arch d =? LittleEndian)) 2 (md_num d) = [e0; e1] /\
  marshal_def d = 96 :: 0 :: md_arch d :: e0 :: e1 :: len (md_fields d) :: ftriples (md_fields d) ++ len (md_devs d) :: dtriples (md_devs d).
Proof.
  intros (Hh & Hr & Hn & Hl & Hd & Hv). unfold marshal_def.
  destruct (enc (negb (md_arch d =? LittleEndian)) 2 (md_num d)) as [|e0 [|e1 [|? ?]]] eqn:Ee;
    try (apply (f_equal (@length N)) in Ee; rewrite enc_length in Ee; cbn in Ee; lia).
  exists e0, e1. split; [reflexivity|]. rewrite Hh, Hr. change (has 96 DevDataMask) with true. cbv iota.
  rewrite (wrap8_small (len (md_fields d))) by (unfold len; lia). rewrite (wrap8_small (len (md_devs d))) by (unfold len; lia). reflexivity.
Qed.

Lemma app_inj_len {A} (a a' b b' : list A) : length a = length a' -> a ++ b = a' ++ b' -> a = a' /\ b = b'.
Proof.
  revert a'. induction a as [|x a IH]; intros [|y a'] Hl H; cbn [length] in Hl; try lia; [split; [reflexivity|exact H]|].
  cbn [app] in H. injection H as -> H. destruct (IH a' ltac:(lia) H) as [-> ->]. split; reflexivity.
Qed.

Lemma marshal_def_injd d d' : def_rtd d -> def_rtd d' -> marshal_def d = marshal_def d' -> d = d'.
Proof.
  intros [Hd|Hd] [Hd'|Hd'] He.
  - apply marshal_def_inj; assumption.
  - exfalso. destruct (marshal_def_rt d Hd) as (? & ? & _ & E1). destruct (marshal_def_rt96 d' Hd') as (? & ? & _ & E2). rewrite E1, E2 in He. discriminate.
  - exfalso. destruct (marshal_def_rt96 d Hd) as (? & ? & _ & E1). destruct (marshal_def_rt d' Hd') as (? & ? & _ & E2). rewrite E1, E2 in He. discriminate.
  - destruct (marshal_def_rt96 d Hd) as (e0 & e1 & Ee & Em). destruct (marshal_def_rt96 d' Hd') as (e0' & e1' & Ee' & Em').
    rewrite Em, Em' in He. injection He as Ha H0 H1 Hn Hf.
    destruct Hd as (Hh & Hr & Hnum & Hl & Hdv & _). destruct Hd' as (Hh' & Hr' & Hnum' & Hl' & Hdv' & _).
    assert (Hlen : length (md_fields d) = length (md_fields d')) by (unfold len in Hn; lia).
    assert (Hlt : length (ftriples (md_fields d)) = length (ftriples (md_fields d'))) by (rewrite !ftriples_length; lia).
    destruct (app_inj_len _ _ _ _ Hlt Hf) as [Hf1 Hf2].
    apply ftriples_inj in Hf1. injection Hf2 as Hnd Hdd. apply dtriples_inj in Hdd.
    assert (Hnn : md_num d = md_num d').
    { rewrite <- (enc_dec (negb (md_arch d =? LittleEndian)) 2 (md_num d)) by (cbn; lia).
      rewrite <- (enc_dec (negb (md_arch d' =? LittleEndian)) 2 (md_num d')) by (cbn; lia). rewrite Ee, Ee', Ha, H0, H1. reflexivity. }
    destruct d, d'. cbn in *. congruence.
Qed.

Lemma def_record_rt96 dc d i tail s : 765 <= c_bufsize dc -> def_rt96 d -> i < 16 ->
  (match marshal_def d with h :: r => s_rest s = (N.lor h i :: r) ++ tail | [] => False end) -> bufok s ->
  exists s', decode_message dc s = Ok s' /\ rec_post (len (marshal_def d)) s s' /\ s_rest s' = tail
             /\ s_defs s' = replace_nth (s_defs s) (N.to_nat i) (Some (dwith i d)) /\ s_msgs s' = s_msgs s /\ s_fdescs s' = s_fdescs s.
Proof.
  intros Hbuf Hd Hi Hrest Hb. destruct (marshal_def_rt96 d Hd) as (e0 & e1 & Ee & Em). rewrite Em in Hrest |- *.
  destruct Hd as (Hh & Hr & Hnum & Hl & Hdv & Hv).
  pose proof (hdr96_facts i Hi) as Hdh. unfold def96_hdr_ok in Hdh. apply andb_prop in Hdh. destruct Hdh as [Hdh Hloc]. apply andb_prop in Hdh. destruct Hdh as [Hisdef Hdev].
  apply N.eqb_eq in Hloc.
  set (F := ftriples (md_fields d)) in *. set (n := len (md_fields d)) in *. set (D := dtriples (md_devs d)) in *. set (m := len (md_devs d)) in *.
  assert (LF : len F = n * 3) by (unfold F, n, len; rewrite ftriples_length; lia).
  assert (LD : len D = m * 3) by (unfold D, m, len; rewrite dtriples_length; lia).
  cbn [app] in Hrest. rewrite <- app_assoc in Hrest. cbn [app] in Hrest.
  unfold decode_message.
  destruct (read_n_totald dc s 1 Hb ltac:(lia) Hbuf) as (s1 & E1 & [G1 Q1]); [rewrite Hrest; unfold len; cbn [length]; lia|].
  rewrite E1, Hrest. change (take 1 (N.lor 96 i :: ?x)) with [N.lor 96 i]. cbn [bind byte_at nth_opt]. rewrite Hisdef.
  destruct G1 as (R1 & B1 & C1 & K1). rewrite Hrest in R1. change (drop 1 (N.lor 96 i :: ?x)) with x in R1.
  unfold decode_definition.
  destruct (read_n_totald dc s1 5 B1 ltac:(lia) Hbuf) as (s2 & E2 & [G2 Q2]); [rewrite R1; unfold len; cbn [length]; lia|].
  rewrite E2, R1. change (take 5 (0 :: md_arch d :: e0 :: e1 :: n :: ?x)) with [0; md_arch d; e0; e1; n].
  cbn [bind byte_at nth_opt slice length Nat.leb andb firstn skipn Nat.sub].
  destruct G2 as (R2 & B2 & C2 & K2). rewrite R1 in R2. change (drop 5 (0 :: md_arch d :: e0 :: e1 :: n :: ?x)) with x in R2.
  assert (Hn : n <= 255) by (unfold n, len; lia). assert (Hm : m <= 255) by (unfold m, len; lia).
  destruct (read_n_totald dc s2 (n * 3) B2 ltac:(lia) Hbuf) as (s3 & E3 & [G3 Q3]); [rewrite R2, len_app; lia|].
  rewrite E3, R2. rewrite <- LF, take_app_len. cbn [bind].
  assert (Hp : parse_fdefs (length F) F = Ok (md_fields d)) by (apply parse_ftriples; [exact Hv|unfold F; rewrite ftriples_length; lia]).
  rewrite Hp. cbn [bind]. rewrite Hdev.
  destruct G3 as (R3 & B3 & C3 & K3). rewrite R2, <- LF, drop_app_len in R3.
  destruct (read_n_totald dc s3 1 B3 ltac:(lia) Hbuf) as (s4 & E4 & [G4 Q4]); [rewrite R3; unfold len; cbn [length]; lia|].
  rewrite E4, R3. change (take 1 (m :: ?x)) with [m]. cbn [bind byte_at nth_opt].
  destruct G4 as (R4 & B4 & C4 & K4). rewrite R3 in R4. change (drop 1 (m :: ?x)) with x in R4.
  destruct (read_n_totald dc s4 (m * 3) B4 ltac:(lia) Hbuf) as (s5 & E5 & [G5 Q5]); [rewrite R4, len_app; lia|].
  rewrite E5, R4. rewrite <- LD, take_app_len. cbn [bind].
  assert (Hpd : parse_ddefs (length D) D = md_devs d) by (apply parse_dtriples; unfold D; rewrite dtriples_length; lia).
  rewrite Hpd.
  destruct G5 as (R5 & B5 & C5 & K5). rewrite R4, <- LD, drop_app_len in R5.
  eexists. split; [reflexivity|].
  destruct K1 as (K1d & K1h & K1m). destruct K2 as (K2d & K2h & K2m). destruct K3 as (K3d & K3h & K3m). destruct K4 as (K4d & K4h & K4m). destruct K5 as (K5d & K5h & K5m).
  cbn [push_event upd_defs s_rest s_buf s_cur s_header s_defs s_msgs s_fdescs].
  split; [|split; [exact R5|split; [|split; congruence]]].
  - unfold rec_post, bufok in *. cbn [push_event upd_defs s_rest s_buf s_cur s_header].
    split.
    { rewrite R5, Hrest. set (pre := [N.lor 96 i; 0; md_arch d; e0; e1; n] ++ F ++ m :: D).
      change (N.lor 96 i :: 0 :: md_arch d :: e0 :: e1 :: n :: F ++ m :: D ++ tail) with (([N.lor 96 i; 0; md_arch d; e0; e1; n] ++ F ++ m :: D) ++ tail) at 1 || idtac.
      assert (Epre : N.lor 96 i :: 0 :: md_arch d :: e0 :: e1 :: n :: F ++ m :: D ++ tail = pre ++ tail).
      { unfold pre. cbn [app]. rewrite <- app_assoc. reflexivity. }
      rewrite Epre. replace (len (96 :: 0 :: md_arch d :: e0 :: e1 :: n :: F ++ m :: D)) with (len pre) by (unfold pre, len; cbn [app length]; reflexivity).
      rewrite drop_app_len. reflexivity. }
    split; [exact B5|]. split; [|congruence].
    rewrite C5, C4, C3, C2, C1. rewrite wrap_add, <- (N.add_assoc _ 1 (m * 3)), wrap_add, <- (N.add_assoc _ (n * 3) _), wrap_add, <- (N.add_assoc _ 5 _), wrap_add.
    f_equal. unfold len in *. cbn [length]. rewrite app_length. cbn [length]. lia.
  - rewrite K5d, K4d, K3d, K2d, K1d, Hloc. f_equal. f_equal. unfold dwith. rewrite Hh, Hr.
    f_equal. rewrite <- Ee. rewrite enc_dec by (cbn; lia). reflexivity.
Qed.

Lemma def_record_rt64 dc d i tail s : 765 <= c_bufsize dc -> def_rt d -> i < 16 ->
  (match marshal_def d with h :: r => s_rest s = (N.lor h i :: r) ++ tail | [] => False end) -> bufok s ->
  exists s', decode_message dc s = Ok s' /\ rec_post (len (marshal_def d)) s s' /\ s_rest s' = tail
             /\ s_defs s' = replace_nth (s_defs s) (N.to_nat i) (Some (dwith i d)) /\ s_msgs s' = s_msgs s /\ s_fdescs s' = s_fdescs s.
Proof.
  intros Hbuf Hd Hi Hrest Hb. destruct (marshal_def_rt d Hd) as (e0 & e1 & Ee & Em). rewrite Em in Hrest |- *.
  destruct Hd as (Hh & Hr & Hnum & Hl & Hdv & Hv).
  destruct (hdr_facts i Hi) as [_ Hdh]. unfold def_hdr_ok in Hdh. apply andb_prop in Hdh. destruct Hdh as [Hdh Hloc]. apply andb_prop in Hdh. destruct Hdh as [Hisdef Hnodev].
  apply N.eqb_eq in Hloc. apply negb_true_iff in Hnodev.
  set (F := ftriples (md_fields d)) in *. set (n := len (md_fields d)) in *.
  assert (LF : len F = n * 3) by (unfold F, n, len; rewrite ftriples_length; lia).
  cbn [app] in Hrest.
  unfold decode_message.
  destruct (read_n_totald dc s 1 Hb ltac:(lia) Hbuf) as (s1 & E1 & [G1 Q1]); [rewrite Hrest; unfold len; cbn [length]; lia|].
  rewrite E1, Hrest. change (take 1 (N.lor 64 i :: ?x)) with [N.lor 64 i]. cbn [bind byte_at nth_opt]. rewrite Hisdef.
  destruct G1 as (R1 & B1 & C1 & K1). rewrite Hrest in R1. change (drop 1 (N.lor 64 i :: ?x)) with x in R1.
  unfold decode_definition.
  destruct (read_n_totald dc s1 5 B1 ltac:(lia) Hbuf) as (s2 & E2 & [G2 Q2]); [rewrite R1; unfold len; cbn [length]; lia|].
  rewrite E2, R1. change (take 5 (0 :: md_arch d :: e0 :: e1 :: n :: ?x)) with [0; md_arch d; e0; e1; n].
  cbn [bind byte_at nth_opt slice length Nat.leb andb firstn skipn Nat.sub].
  destruct G2 as (R2 & B2 & C2 & K2). rewrite R1 in R2. change (drop 5 (0 :: md_arch d :: e0 :: e1 :: n :: ?x)) with x in R2.
  assert (Hn : n <= 255) by (unfold n, len; lia).
  destruct (read_n_totald dc s2 (n * 3) B2 ltac:(lia) Hbuf) as (s3 & E3 & [G3 Q3]); [rewrite R2, len_app; lia|].
  rewrite E3, R2. rewrite <- LF, take_app_len. cbn [bind].
  assert (Hp : parse_fdefs (length F) F = Ok (md_fields d)) by (apply parse_ftriples; [exact Hv|unfold F; rewrite ftriples_length; lia]).
  rewrite Hp. cbn [bind].
  rewrite Hnodev. cbn [bind].
  destruct G3 as (R3 & B3 & C3 & K3). rewrite R2, <- LF, drop_app_len in R3.
  eexists. split; [reflexivity|].
  destruct K1 as (K1d & K1h & K1m). destruct K2 as (K2d & K2h & K2m). destruct K3 as (K3d & K3h & K3m).
  cbn [push_event upd_defs s_rest s_buf s_cur s_header s_defs s_msgs s_fdescs].
  split; [|split; [exact R3|split; [|split; congruence]]].
  - unfold rec_post, bufok in *. cbn [push_event upd_defs s_rest s_buf s_cur s_header].
    split; [rewrite R3, Hrest; change (64 :: 0 :: md_arch d :: e0 :: e1 :: n :: F) with ([64; 0; md_arch d; e0; e1; n] ++ F);
            change (N.lor 64 i :: 0 :: md_arch d :: e0 :: e1 :: n :: F ++ tail) with (([N.lor 64 i; 0; md_arch d; e0; e1; n] ++ F) ++ tail);
            replace (len ([64; 0; md_arch d; e0; e1; n] ++ F)) with (len ([N.lor 64 i; 0; md_arch d; e0; e1; n] ++ F)) by (rewrite !len_app; reflexivity);
            rewrite drop_app_len; reflexivity|].
    split; [exact B3|]. split; [|congruence].
    rewrite C3, C2, C1. rewrite wrap_add, <- N.add_assoc, wrap_add. f_equal. unfold len. cbn [length]. unfold len in LF. lia.
  - rewrite K3d, K2d, K1d, Hloc. f_equal. f_equal. unfold dwith. rewrite Hh, Hr, Hdv.
    f_equal. rewrite <- Ee. rewrite enc_dec by (cbn; lia). reflexivity.
Qed.

(* ---------------------------------------------------------------- one data record with developer fields *)
Definition next_fds (fds : list fdesc) (m : message) : list fdesc :=
  if m_num m =? mesgnum_FieldDescription then fds ++ [new_field_description (m_fields m)] else fds.
Definition msg_rtd (big : bool) (fds : list fdesc) (m : message) : Prop :=
  (length (m_fields m) <= 255)%nat /\ (length (m_devs m) <= 255)%nat /\ m_num m < 65536
  /\ Forall (field_rt big (m_num m)) (m_fields m) /\ Forall (dev_rt big (next_fds fds m)) (m_devs m).

Lemma read_n_fdescs c s n : wpost (read_n c s n) (fun r => s_fdescs (snd r) = s_fdescs s).
Proof. unfold read_n, read_raw. destruct (n <=? s_buf s); [reflexivity|]. destruct (n <=? _); [reflexivity|exact I]. Qed.
Lemma read_value_fdescs c s sz arch base ptype arr ovr : wpost (read_value c s sz arch base ptype arr ovr) (fun r => s_fdescs (snd r) = s_fdescs s).
Proof.
  unfold read_value. eapply wpost_bind; [apply read_n_fdescs|]. intros [b s1] H. cbn [snd] in H. cbv beta iota zeta.
  eapply wpost_bind; [apply wpost_any|]. intros v _. cbn. exact H.
Qed.
Lemma decode_fields_fdescs c arch mn : c_expand c = false -> forall fds s fs0, wpost (decode_fields c s arch mn fds fs0) (fun r => s_fdescs (snd r) = s_fdescs s).
Proof.
  intros Hex. induction fds as [|fd rest IH]; intros s fs0; cbn [decode_fields]; [reflexivity|].
  eapply wpost_bind; [apply wpost_any|]. intros [f ovr] _. cbv beta iota zeta.
  destruct (fd_size fd =? 0); [apply IH|].
  destruct (if fd_size fd <? bt_size (f_base f) then (bt_uint8, pt_Uint8, true) else (f_base f, fb_ptype (f_fb f), fb_array (f_fb f))) as [[rb rp] ra].
  eapply wpost_bind; [apply read_value_fdescs|]. intros [v s1] H1. cbn [snd] in H1. cbv beta iota zeta. rewrite Hex, andb_false_r.
  eapply wpost_weaken; [apply IH|]. intros r Hr. rewrite Hr.
  destruct (if negb (rb =? f_base f) then convert_bytes_to_value (slice_u8 v) arch (f_base f) else v) as [|ty x|ty l|sv|ss]; try exact H1.
  destruct ty; try exact H1. destruct (f_num f =? FieldNumTimestamp); exact H1.
Qed.

Lemma marshal_values_app big : forall xs ys body, marshal_values big (xs ++ ys) = Some body ->
  exists b1 b2, marshal_values big xs = Some b1 /\ marshal_values big ys = Some b2 /\ body = b1 ++ b2.
Proof.
  induction xs as [|x xs IH]; intros ys body H; cbn [app marshal_values] in *.
  - exists [], body. auto.
  - destruct (marshal big x) as [a|]; [|discriminate]. destruct (marshal_values big (xs ++ ys)) as [r|] eqn:E; [|discriminate]. injection H as <-.
    destruct (IH _ _ E) as (b1 & b2 & -> & H2 & ->). exists (a ++ b1), b2. split; [reflexivity|]. split; [exact H2|]. rewrite app_assoc. reflexivity.
Qed.

Lemma new_definition_d big m : new_definition big m =
  mkmd (match m_devs m with [] => 64 | _ => 96 end) 0 (arch_of big) (m_num m) (map fdef_of (m_fields m)) (map ddef_of (m_devs m)).
Proof. unfold new_definition. destruct (m_devs m); reflexivity. Qed.

Lemma data_record_rtd dc big m i body tail s : c_expand dc = false -> 765 <= c_bufsize dc -> msg_rtd big (s_fdescs s) m -> i < 16 ->
  marshal_values big (map f_value (m_fields m) ++ map df_value (m_devs m)) = Some body -> s_rest s = (i :: body) ++ tail -> bufok s ->
  nth (N.to_nat i) (s_defs s) None = Some (dwith i (new_definition big m)) ->
  exists s', decode_message dc s = Ok s' /\ rec_post (1 + len body) s s' /\ s_rest s' = tail /\ s_defs s' = s_defs s
             /\ s_msgs s' = mkmsg i (m_num m) (m_fields m) (m_devs m) :: s_msgs s /\ s_fdescs s' = next_fds (s_fdescs s) m.
Proof.
  intros Hex Hbuf Hm Hi Hbody Hrest Hb Hdef.
  rewrite new_definition_d in Hdef. unfold dwith in Hdef. cbn [md_header md_reserved md_arch md_num md_fields md_devs] in Hdef.
  destruct Hm as (Hl & Hld & Hnum & Hf & Hdv).
  destruct (marshal_values_app _ _ _ _ Hbody) as (b1 & b2 & Hb1 & Hb2 & ->).
  destruct (hdr_facts i Hi) as [Hdh _]. unfold data_hdr_ok in Hdh. apply andb_prop in Hdh. destruct Hdh as [Hdh Hloc]. apply andb_prop in Hdh. destruct Hdh as [Hnotdef Hnotc].
  apply N.eqb_eq in Hloc. apply negb_true_iff in Hnotdef. apply negb_true_iff in Hnotc.
  cbn [app] in Hrest. unfold decode_message.
  destruct (read_n_totald dc s 1 Hb ltac:(lia) Hbuf) as (s1 & E1 & [G1 Q1]); [rewrite Hrest; unfold len; cbn [length]; lia|].
  rewrite E1, Hrest. change (take 1 (i :: ?x)) with [i]. cbn [bind byte_at nth_opt]. rewrite Hnotdef.
  pose proof G1 as (R1 & B1 & C1 & K1d & K1h & K1m). rewrite Hrest in R1. change (drop 1 (i :: ?x)) with x in R1. rewrite <- app_assoc in R1.
  unfold decode_data. rewrite Hnotc. cbv zeta. rewrite Hloc, K1d, Hdef.
  unfold decode_data_body. cbn [md_arch md_num md_fields md_devs].
  destruct (decode_fields_rt dc big (m_num m) Hex Hbuf (m_fields m) s1 [] b1 (b2 ++ tail) Hf Hb1 R1 B1) as (s2 & Ed & G2); [rewrite C1; apply (wrap_lt 32)|].
  assert (Q2 : s_fdescs s2 = s_fdescs s1) by (pose proof (decode_fields_fdescs dc (arch_of big) (m_num m) Hex (map fdef_of (m_fields m)) s1 []) as W; rewrite Ed in W; exact W).
  rewrite Ed. cbn [bind fst snd app]. rewrite Hex. cbn [fst snd].
  pose proof G2 as (R2 & B2 & C2 & K2d & K2h & K2m). rewrite R1, drop_app_len in R2.
  set (s3 := match s_fileid s2 with None => if m_num m =? mesgnum_FileId then upd_fileid s2 (Some (mkmsg i (m_num m) (m_fields m) [])) else s2 | Some _ => s2 end).
  assert (H3 : sameM s2 s3 /\ s_fdescs s3 = s_fdescs s2) by (unfold s3; destruct (s_fileid s2); [split; [apply sameM_refl|reflexivity]|]; destruct (m_num m =? mesgnum_FileId); split; first [apply sm_upd_fileid|apply sameM_refl|reflexivity]).
  set (s4 := if m_num m =? mesgnum_DeveloperDataId then upd_dev s3 (s_devidx s3 ++ [u8_of (field_value_by_num (m_fields m) fn_DeveloperDataId_DeveloperDataIndex)]) (s_fdescs s3)
             else if m_num m =? mesgnum_FieldDescription then upd_dev s3 (s_devidx s3) (s_fdescs s3 ++ [new_field_description (m_fields m)]) else s3).
  assert (Hdd : mesgnum_DeveloperDataId <> mesgnum_FieldDescription) by discriminate.
  assert (H4 : sameM s3 s4 /\ s_fdescs s4 = next_fds (s_fdescs s3) m).
  { unfold s4, next_fds. destruct (m_num m =? mesgnum_DeveloperDataId) eqn:E1'.
    - apply N.eqb_eq in E1'. replace (m_num m =? mesgnum_FieldDescription) with false by (symmetry; apply N.eqb_neq; congruence). split; [apply sm_upd_dev|reflexivity].
    - destruct (m_num m =? mesgnum_FieldDescription); split; first [apply sm_upd_dev|apply sameM_refl|reflexivity]. }
  destruct H3 as [H3 Q3]. destruct H4 as [H4 Q4].
  assert (G4 : got (len b1) s1 s4) by (eapply got_sameM; [eapply got_sameM; [exact G2|exact H3]|exact H4]).
  assert (R4 : s_rest s4 = b2 ++ tail) by (destruct H3 as (P1 & _); destruct H4 as (P1' & _); rewrite P1', P1; exact R2).
  assert (Qall : s_fdescs s4 = next_fds (s_fdescs s) m) by (rewrite Q4, Q3, Q2, Q1; reflexivity).
  clearbody s3 s4.
  destruct (m_devs m) as [|d0 ds] eqn:Edevs.
  - cbn [map marshal_values] in Hb2. injection Hb2 as <-. cbn [map bind fst snd]. rewrite app_nil_r in *.
    eexists. split; [reflexivity|]. pose proof G4 as (R4' & B4 & C4 & K4d & K4h & K4m).
    unfold rec_post, bufok in *. cbn [push_msg s_rest s_buf s_cur s_header s_defs s_msgs s_fdescs].
    split; [|split; [exact R4|split; [congruence|split; [congruence|exact Qall]]]].
    split; [rewrite R4, Hrest; change (i :: b1 ++ tail) with ((i :: b1) ++ tail); replace (1 + len b1) with (len (i :: b1)) by (unfold len; cbn [length]; lia); rewrite drop_app_len; reflexivity|].
    split; [exact B4|]. split; [|congruence]. rewrite C4, C1, wrap_add, N.add_assoc. reflexivity.
  - rewrite <- Edevs in *. clear Edevs.
    assert (Hdv4 : Forall (dev_rt big (s_fdescs s4)) (m_devs m)) by (rewrite Qall; exact Hdv).
    pose proof G4 as (R4' & B4 & C4 & K4d & K4h & K4m).
    destruct (decode_dev_fields_rt dc big Hbuf (m_devs m) s4 [] b2 tail Hdv4 Hb2 R4 B4) as (s5 & Edv & [G5 Q5]); [eapply got_cur_small; exact G4|].
    assert (Hmatch : match map ddef_of (m_devs m) with [] => Ok ([], s4) | dds => decode_dev_fields dc s4 (arch_of big) dds [] end = Ok (m_devs m, s5)).
    { destruct (m_devs m) eqn:E; [cbn in Edv |- *; exact Edv|exact Edv]. }
    rewrite Hmatch. cbn [bind fst snd].
    eexists. split; [reflexivity|]. pose proof G5 as (R5 & B5 & C5 & K5d & K5h & K5m).
    unfold rec_post, bufok in *. cbn [push_msg s_rest s_buf s_cur s_header s_defs s_msgs s_fdescs].
    split; [|split; [rewrite R5, R4, drop_app_len; reflexivity|split; [congruence|split; [congruence|congruence]]]].
    split; [rewrite R5, R4, drop_app_len, Hrest; change (i :: (b1 ++ b2) ++ tail) with ((i :: b1 ++ b2) ++ tail); replace (1 + len (b1 ++ b2)) with (len (i :: b1 ++ b2)) by (unfold len; cbn [length]; lia); rewrite drop_app_len; reflexivity|].
    split; [exact B5|]. split; [|congruence]. rewrite C5, C4, C1. rewrite wrap_add, <- N.add_assoc, wrap_add, len_app. f_equal. lia.
Qed.

(* ---------------------------------------------------------------- one message *)
Definition dinvd (l : lru) (defs : list (option mdef)) : Prop :=
  forall i, (i < length (l_items l))%nat -> nth i (l_items l) [] <> [] ->
    exists d, def_rtd d /\ nth i (l_items l) [] = marshal_def d /\ nth i defs None = Some (dwith (N.of_nat i) d).

Lemma new_definition_rtd big fds m : msg_rtd big fds m -> def_rtd (new_definition big m).
Proof.
  intros (Hl & Hld & Hn & Hf & _). rewrite new_definition_d.
  assert (Hv : Forall (fun f => bt_valid (fd_base f) = true) (map fdef_of (m_fields m))).
  { apply Forall_forall. intros fd Hin. apply in_map_iff in Hin. destruct Hin as (f & <- & Hin). cbn [fd_base]. rewrite Forall_forall in Hf. apply (Hf f Hin). }
  destruct (m_devs m) as [|d0 ds] eqn:Ed.
  - left. unfold def_rt. cbn [md_header md_reserved md_num md_fields md_devs map]. rewrite map_length. repeat split; try assumption; reflexivity.
  - right. unfold def_rt96. cbn [md_header md_reserved md_num md_fields md_devs]. rewrite !map_length. cbn [length] in *. repeat split; try assumption; try reflexivity; lia.
Qed.

Lemma def_record_rtd dc d i tail s : 765 <= c_bufsize dc -> def_rtd d -> i < 16 ->
  (match marshal_def d with h :: r => s_rest s = (N.lor h i :: r) ++ tail | [] => False end) -> bufok s ->
  exists s', decode_message dc s = Ok s' /\ rec_post (len (marshal_def d)) s s' /\ s_rest s' = tail
             /\ s_defs s' = replace_nth (s_defs s) (N.to_nat i) (Some (dwith i d)) /\ s_msgs s' = s_msgs s /\ s_fdescs s' = s_fdescs s.
Proof. intros Hbuf [Hd|Hd] Hi Hrest Hb; [apply def_record_rt64|apply def_record_rt96]; assumption. Qed.

Lemma message_rtd c dc st m b st' s tail : e_compressed c = false -> c_expand dc = false -> 765 <= c_bufsize dc -> msg_rtd (e_big c) (s_fdescs s) m ->
  linv (es_lru st) -> (0 < length (l_items (es_lru st)) <= 16)%nat -> dinvd (es_lru st) (s_defs s) -> length (s_defs s) = 16%nat ->
  encode_message c st m = Ok (b, st') -> s_rest s = b ++ tail -> bufok s ->
  s_cur s + len b <= h_datasize (s_header s) -> h_datasize (s_header s) < 4294967296 ->
  exists s' k mh, (1 <= k)%nat /\ N.of_nat k <= len b /\ (forall fuel, decode_messages (k + fuel) dc s = decode_messages fuel dc s')
    /\ s_rest s' = tail /\ bufok s' /\ s_cur s' = s_cur s + len b /\ s_header s' = s_header s
    /\ s_msgs s' = mkmsg mh (m_num m) (m_fields m) (m_devs m) :: s_msgs s /\ s_fdescs s' = next_fds (s_fdescs s) m
    /\ linv (es_lru st') /\ length (l_items (es_lru st')) = length (l_items (es_lru st)) /\ dinvd (es_lru st') (s_defs s') /\ length (s_defs s') = 16%nat.
Proof.
  intros Hcomp Hex Hbuf Hm Hli Hsz Hdinv Hl16 Henc Hrest Hb Hcur Hds.
  unfold encode_message, encode_message_chunks, bind in Henc. rewrite Hcomp in Henc.
  set (m2 := mkmsg MesgNormalHeaderMask (m_num m) (m_fields m) (m_devs m)) in Henc.
  change (new_definition (e_big c) m2) with (new_definition (e_big c) m) in Henc.
  pose proof (new_definition_rtd (e_big c) _ m Hm) as Hdrt.
  set (d := new_definition (e_big c) m) in *.
  destruct (marshal_def_cons d) as (h0 & r0 & Emd & Hh0). rewrite Emd in Henc.
  destruct (lru_put (es_lru st) (h0 :: r0)) as [[local isnew] lru'] eqn:Ep.
  destruct (lru_put_spec _ _ _ _ _ Hli ltac:(lia) Ep) as (Hli' & Hlen' & Hidx & Hitems).
  assert (Hl : local < 16) by lia.
  unfold marshal_message in Henc. cbn [m_fields m_devs m2] in Henc.
  destruct (marshal_values (e_big c) (map f_value (m_fields m) ++ map df_value (m_devs m))) as [body|] eqn:Ebody; [|destruct isnew; discriminate].
  change (N.lor MesgNormalHeaderMask local) with (N.lor 0 local) in Henc. rewrite N.lor_0_l in Henc.
  assert (Hcs : s_cur s < 4294967296) by lia.
  destruct isnew.
  - cbv beta iota delta [fst snd m_header] in Henc.
    match type of Henc with Ok (?x, ?y) = Ok _ => assert (Eb : b = x) by congruence; assert (Est : st' = y) by congruence end. subst b st'. clear Henc. cbv beta iota delta [es_lru].
    change (concat ([N.lor h0 local :: r0] ++ [local :: body])) with ((N.lor h0 local :: r0) ++ (local :: body) ++ []) in *. rewrite app_nil_r in *.
    rewrite <- app_assoc in Hrest.
    destruct (def_record_rtd dc d local ((local :: body) ++ tail) s Hbuf Hdrt Hl) as (s1 & D1 & (R1 & B1 & C1 & H1) & T1 & F1 & M1 & Q1); [rewrite Emd; exact Hrest|exact Hb|].
    rewrite Emd in C1.
    assert (Hdef1 : nth (N.to_nat local) (s_defs s1) None = Some (dwith local d)) by (rewrite F1; apply nth_replace_same; lia).
    assert (Hm1 : msg_rtd (e_big c) (s_fdescs s1) m) by (rewrite Q1; exact Hm).
    destruct (data_record_rtd dc (e_big c) m local body tail s1 Hex Hbuf Hm1 Hl Ebody T1 B1 Hdef1) as (s2 & D2 & (R2 & B2 & C2 & H2) & T2 & F2 & M2 & Q2).
    rewrite len_app in Hcur. assert (Ld : len (N.lor h0 local :: r0) = len (h0 :: r0)) by reflexivity.
    assert (Lb : len (local :: body) = 1 + len body) by (unfold len; cbn [length]; lia).
    assert (C1' : s_cur s1 = s_cur s + len (h0 :: r0)) by (rewrite C1; apply wrap32_small; lia).
    assert (C2' : s_cur s2 = s_cur s + len (h0 :: r0) + (1 + len body)) by (rewrite C2, C1'; apply wrap32_small; lia).
    exists s2, 2%nat, local. split; [lia|]. split; [rewrite len_app, Lb; unfold len; cbn [length]; lia|].
    split. { intros fuel. change (2 + fuel)%nat with (S (S fuel)). rewrite (decode_messages_step _ _ _ _ D1) by lia.
             apply decode_messages_step; [exact D2|]. rewrite H1. lia. }
    split; [exact T2|]. split; [exact B2|]. split; [rewrite C2', len_app, Ld, Lb; lia|]. split; [congruence|].
    split; [rewrite M2, M1; reflexivity|]. split; [rewrite Q2, Q1; reflexivity|]. split; [exact Hli'|]. split; [exact Hlen'|]. split; [|rewrite F2, F1, replace_nth_length; exact Hl16].
    intros j Hj Hne. rewrite Hitems in Hne |- *. rewrite Hlen' in Hj. rewrite F2, F1.
    destruct (Nat.eq_dec j (N.to_nat local)) as [->|Hneq].
    + rewrite !nth_replace_same by lia. exists d. split; [exact Hdrt|]. split; [symmetry; exact Emd|]. rewrite N2Nat.id. reflexivity.
    + rewrite nth_replace_other in Hne |- * by congruence. rewrite nth_replace_other by congruence. apply Hdinv; assumption.
  - destruct Hitems as [Hsame Hnth].
    cbv beta iota delta [fst snd m_header] in Henc.
    match type of Henc with Ok (?x, ?y) = Ok _ => assert (Eb : b = x) by congruence; assert (Est : st' = y) by congruence end. subst b st'. clear Henc. cbv beta iota delta [es_lru].
    change (concat ([] ++ [local :: body])) with ((local :: body) ++ []) in *. rewrite app_nil_r in *.
    destruct (Hdinv (N.to_nat local) Hidx) as (d0 & Hd0 & Hi0 & Hdef0); [rewrite Hnth; discriminate|].
    assert (Hdd : d0 = d) by (apply marshal_def_injd; [exact Hd0|exact Hdrt|rewrite <- Hi0, Hnth; symmetry; exact Emd]). subst d0.
    rewrite N2Nat.id in Hdef0.
    destruct (data_record_rtd dc (e_big c) m local body tail s Hex Hbuf Hm Hl Ebody Hrest Hb Hdef0) as (s2 & D2 & (R2 & B2 & C2 & H2) & T2 & F2 & M2 & Q2).
    assert (Lb : len (local :: body) = 1 + len body) by (unfold len; cbn [length]; lia).
    exists s2, 1%nat, local. split; [lia|]. split; [rewrite Lb; lia|].
    split. { intros fuel. apply decode_messages_step; [exact D2|]. lia. }
    split; [exact T2|]. split; [exact B2|]. split; [rewrite C2, Lb; apply wrap32_small; lia|]. split; [exact H2|].
    split; [exact M2|]. split; [exact Q2|]. split; [exact Hli'|]. split; [exact Hlen'|]. split; [|rewrite F2; exact Hl16].
    intros j Hj Hne. rewrite Hsame in *. rewrite F2. apply Hdinv; assumption.
Qed.

(* ---------------------------------------------------------------- all messages of a sequence *)
Fixpoint msgs_rtd (big : bool) (fds : list fdesc) (ms : list message) : Prop :=
  match ms with [] => True | m :: r => msg_rtd big fds m /\ msgs_rtd big (next_fds fds m) r end.

Lemma messages_rtd c dc : e_compressed c = false -> c_expand dc = false -> 765 <= c_bufsize dc ->
  forall ms st acc out st' fds, msgs_rtd (e_big c) fds ms -> linv (es_lru st) -> (0 < length (l_items (es_lru st)) <= 16)%nat ->
  encode_messages c st ms acc = Ok (out, st') ->
  exists recs, out = acc ++ recs /\
    forall s tail fuel, s_fdescs s = fds -> dinvd (es_lru st) (s_defs s) -> length (s_defs s) = 16%nat -> s_rest s = recs ++ tail -> bufok s ->
      s_cur s + len recs = h_datasize (s_header s) -> h_datasize (s_header s) < 4294967296 -> (length recs <= fuel)%nat ->
      exists s', decode_messages fuel dc s = Ok s' /\ s_rest s' = tail /\ bufok s' /\ s_header s' = s_header s
                 /\ map content (s_msgs s') = rev (map content ms) ++ map content (s_msgs s).
Proof.
  intros Hcomp Hex Hbuf. induction ms as [|m ms IH]; intros st acc out st' fds Hrt Hli Hsz Henc; cbn [encode_messages] in Henc.
  - injection Henc as <- <-. exists []. rewrite app_nil_r. split; [reflexivity|].
    intros s tail fuel _ _ _ Hrest Hb Hcur _ _. exists s. change (len (@nil N)) with 0 in Hcur.
    split; [apply decode_messages_done; lia|]. split; [exact Hrest|]. split; [exact Hb|]. split; reflexivity.
  - destruct Hrt as [Hm Hms]. unfold bind in Henc.
    destruct (encode_message c st m) as [[b st1]| | |] eqn:Em; try discriminate.
    destruct (encode_message_lru c st m b st1 Hli ltac:(lia) Em) as [Hli1 Hlen1].
    destruct (IH st1 (acc ++ b) out st' _ Hms Hli1 ltac:(lia) Henc) as (recs' & Hout & Hdec).
    exists (b ++ recs'). split; [rewrite Hout, app_assoc; reflexivity|].
    intros s tail fuel Hfds Hdinv Hl16 Hrest Hb Hcur Hds Hfuel.
    rewrite <- app_assoc in Hrest. rewrite len_app in Hcur. rewrite <- Hfds in Hm.
    destruct (message_rtd c dc st m b st1 s (recs' ++ tail) Hcomp Hex Hbuf Hm Hli Hsz Hdinv Hl16 Em Hrest Hb ltac:(lia) Hds)
      as (s1 & k & mh & Hk1 & Hk2 & Hstep & T1 & B1 & C1 & H1 & M1 & Q1 & _ & _ & Hdinv1 & Hl161).
    rewrite app_length in Hfuel. unfold len in Hk2.
    replace fuel with (k + (fuel - k))%nat by lia. rewrite Hstep.
    destruct (Hdec s1 tail (fuel - k)%nat) as (s' & D' & T' & B' & H' & M'); try assumption; [rewrite Q1, Hfds; reflexivity|rewrite H1, C1; lia|rewrite H1; exact Hds|lia|].
    exists s'. split; [exact D'|]. split; [exact T'|]. split; [exact B'|]. split; [congruence|].
    rewrite M', M1. cbn [map rev]. rewrite <- app_assoc. reflexivity.
Qed.

(* ---------------------------------------------------------------- one sequence *)
Definition boundary_d (s : dstate) : Prop := boundary_state s /\ s_fdescs s = [].

Lemma read_raw_fdescs c s n : wpost (read_raw c s n) (fun r => s_fdescs (snd r) = s_fdescs s).
Proof. unfold read_raw. destruct (n <=? s_buf s); [reflexivity|]. destruct (n <=? _); [reflexivity|exact I]. Qed.
Lemma header_fdescs c s : wpost (decode_file_header c s) (fun s' => s_fdescs s' = s_fdescs s).
Proof.
  unfold decode_file_header.
  eapply wpost_bind; [apply read_raw_fdescs|]. intros [b s1] H1. cbn [snd] in H1. cbv beta iota zeta.
  eapply wpost_bind; [apply wpost_any|]. intros size _.
  destruct (negb ((size =? 12) || (size =? 14))); [exact I|].
  eapply wpost_bind; [apply read_raw_fdescs|]. intros [b2 s2] H2. cbn [snd] in H2. cbv beta iota zeta.
  change (s_fdescs (upd_crc s1 (write (s_crc s1) b))) with (s_fdescs s1) in H2.
  eapply wpost_bind; [apply wpost_any|]. intros dt _. destruct (negb (list_N_eqb dt DataTypeFIT)); [exact I|].
  eapply wpost_bind; [apply wpost_any|]. intros b0 _. eapply wpost_bind; [apply wpost_any|]. intros pv _.
  eapply wpost_bind; [apply wpost_any|]. intros ds _. cbv beta zeta. destruct (le_word ds =? 0); [exact I|].
  eapply wpost_bind; [apply wpost_any|]. intros hcrc _. cbv beta zeta.
  assert (Hfin : forall h e, s_fdescs (upd_crc (push_event (upd_header s2 h) e) 0) = s_fdescs s) by (intros; change (s_fdescs (upd_crc (push_event (upd_header s2 h) e) 0)) with (s_fdescs s2); congruence).
  destruct ((hcrc =? 0) || negb (c_checksum c)); [apply Hfin|]. destruct (negb (_ =? hcrc)); [exact I|apply Hfin].
Qed.

Lemma dinvd_init n : dinvd (lru_init n) no_defs.
Proof.
  intros i Hi Hne. exfalso. apply Hne. unfold lru_init. cbn [l_items]. destruct (Nat.lt_ge_cases i (N.to_nat n)) as [H|H].
  - apply nth_repeat.
  - apply nth_overflow. rewrite repeat_length. exact H.
Qed.

#[local] Opaque write le_bytes.
Lemma one_sequence_rtd c f r dc s tail :
  e_compressed c = false -> c_checksum dc = false -> c_expand dc = false -> 765 <= c_bufsize dc ->
  encode_fit c f = Ok r -> msgs_rtd (e_big c) [] (er_msgs r) -> len (er_bytes r) < 4294967296 ->
  boundary_d s -> s_rest s = er_bytes r ++ tail ->
  exists ft s', decode_one dc s = Ok (ft, s') /\ map content (fit_msgs ft) = map content (er_msgs r) /\ boundary_d s' /\ s_rest s' = tail.
Proof.
  intros Hcomp Hck Hex Hbuf Henc Hrt Hlen [(Hb0 & Hc0 & Hd0 & Hm0 & _ & _) Hf0] Hrest.
  destruct (encode_fit_inv c f r Henc) as (hb & records & st & ver & pv & Hbytes & Hem & Hne & Hhlen & Hh12).
  set (hsize := if ef_hsize f =? 12 then 12 else 14) in *.
  assert (Hsz : hsize = 12 \/ hsize = 14) by (unfold hsize; destruct (ef_hsize f =? 12); auto).
  assert (Hsz16 : (0 < length (l_items (es_lru (es_init c))) <= 16)%nat).
  { unfold es_init, lru_init, local_types. cbn [es_lru l_items]. rewrite repeat_length, Hcomp. lia. }
  destruct (messages_rtd c dc Hcomp Hex Hbuf (er_msgs r) (es_init c) [] records st [] Hrt (linv_init _) Hsz16 Hem) as (recs & Hrec & Hdec).
  cbn [app] in Hrec. subst recs.
  destruct (encode_messages_acc _ _ _ _ _ _ Hem) as (x & Hx & Hds & _). cbn [app] in Hx. subst x.
  cbn [es_init es_datasize] in Hds. rewrite N.add_0_l in Hds.
  pose proof (datasize_small c _ _ _ _ _ Hem ltac:(cbn; lia)) as Hsmall.
  assert (Hlr : len records < 4294967296) by (rewrite Hbytes, !len_app in Hlen; lia).
  assert (Hdsz : es_datasize st = len records) by (rewrite <- (RoundtripSeq.wrap32_small (es_datasize st) Hsmall), Hds; apply RoundtripSeq.wrap32_small; exact Hlr).
  assert (Hrne : len records <> 0).
  { destruct (er_msgs r) as [|m0 ms0]; [contradiction|]. cbn [encode_messages] in Hem. unfold bind in Hem.
    destruct (encode_message c (es_init c) m0) as [[b0 st0]| | |] eqn:E0; try discriminate.
    pose proof (encode_message_nonempty _ _ _ _ _ E0) as Hb0'. destruct (encode_messages_acc _ _ _ _ _ _ Hem) as (x & -> & _).
    cbn [app]. rewrite len_app. destruct b0; [contradiction|unfold len; cbn [length]; lia]. }
  rewrite Hbytes in Hrest. rewrite <- !app_assoc in Hrest.
  destruct (header_total dc s hb (records ++ le_bytes 2 (er_crc r) ++ tail) hsize ver pv (es_datasize st) Hck Hbuf Hb0 Hrest Hhlen Hsz Hh12 Hsmall ltac:(lia))
    as (s1 & D1 & R1 & B1 & C1 & F1 & M1 & H1).
  assert (Hf1 : s_fdescs s1 = []) by (pose proof (header_fdescs dc s) as W; rewrite D1 in W; rewrite W; exact Hf0).
  destruct (Hdec s1 (le_bytes 2 (er_crc r) ++ tail) (S (length (s_rest s1)))) as (s2 & D2 & R2 & B2 & H2 & M2).
  { exact Hf1. }
  { rewrite F1, Hd0. apply dinvd_init. }
  { rewrite F1, Hd0. reflexivity. }
  { exact R1. }
  { exact B1. }
  { rewrite C1, Hc0, H1, Hdsz. reflexivity. }
  { rewrite H1. exact Hsmall. }
  { rewrite R1, app_length. lia. }
  assert (Hl2 : len (le_bytes 2 (er_crc r)) = 2) by (unfold len; rewrite le_bytes_length; reflexivity).
  destruct (read_raw_ok dc s2 2 B2 ltac:(lia) Hbuf) as (s3 & E3 & R3 & B3 & _ & _ & _ & H3 & K3); [rewrite R2, len_app, Hl2; lia|].
  eexists. eexists. split.
  - unfold decode_one, bind. rewrite D1, D2. unfold decode_crc, bind. rewrite E3, Hck. reflexivity.
  - cbn [fit_msgs snd fst]. split.
    + rewrite map_rev. destruct K3 as (_ & _ & _ & _ & _ & _ & _ & _ & K3m & _). cbn [push_event upd_crc upd_read s_msgs]. rewrite K3m, M2, M1, Hm0. cbn [map]. rewrite app_nil_r, rev_involutive. reflexivity.
    + split; [split; [apply reset_seq_boundary; exact B3|reflexivity]|]. cbn [reset_seq push_event upd_crc upd_read s_rest].
      rewrite R3, R2. replace 2 with (len (le_bytes 2 (er_crc r))) by exact Hl2. apply drop_app_len.
Qed.
