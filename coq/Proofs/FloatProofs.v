(* Proofs/FloatProofs.v -- facts about Model/Float.v through Flocq's primitive-float bridge:
   integers below 2^53 convert exactly, truncation/rounding of an exact integer returns it, wrap_int is the
   identity in range.  Axioms reached: the stdlib's FloatAxioms / Uint63 axioms (the bridge), and the
   real-number axioms, classic and functional extensionality that Reals/Flocq use. *)
From Coq Require Import ZArith Reals Floats Lia Lra Bool.
From Flocq Require Import Core.Core IEEE754.BinarySingleNaN IEEE754.PrimFloat.
From Fit Require Import Model.Float.
Open Scope R_scope.
#[local] Existing Instance Hprec.
#[local] Existing Instance Hmax.

Notation fexp := (SpecFloat.fexp prec emax).
Notation rnd := (round radix2 fexp (round_mode mode_NE)).

Lemma format_small_int (m e : Z) : (Z.abs m < 2 ^ 53)%Z -> (-1074 <= e)%Z ->
  generic_format radix2 fexp (F2R (Float radix2 m e)).
Proof.
  intros Hm He. change fexp with (FLT_exp (SpecFloat.emin prec emax) prec).
  apply generic_format_FLT. exists (Float radix2 m e); [reflexivity|exact Hm|exact He].
Qed.

Lemma rnd_exact (m e : Z) : (Z.abs m < 2 ^ 53)%Z -> (-1074 <= e)%Z ->
  rnd (F2R (Float radix2 m e)) = F2R (Float radix2 m e).
Proof. intros. apply round_generic; [apply valid_rnd_N|apply format_small_int; assumption]. Qed.

Lemma F2R_bound (m e : Z) : (Z.abs m < 2 ^ 53)%Z -> (e <= 0)%Z -> Rabs (F2R (Float radix2 m e)) < bpow radix2 emax.
Proof.
  intros Hm He. rewrite <- F2R_Zabs. cbn [Fnum Fexp F2R]. unfold F2R; cbn [Fnum Fexp].
  apply Rle_lt_trans with (IZR (Z.abs m) * 1).
  - apply Rmult_le_compat_l; [apply IZR_le; lia|]. replace 1 with (bpow radix2 0) by reflexivity. apply bpow_le; exact He.
  - rewrite Rmult_1_r. apply Rlt_trans with (IZR (2 ^ 53)); [apply IZR_lt; exact Hm|].
    change (IZR (2 ^ 53)) with (bpow radix2 53). apply bpow_lt. reflexivity.
Qed.

Lemma F2R_int (z : Z) : F2R (Float radix2 z 0) = IZR z.
Proof. unfold F2R; cbn. lra. Qed.

Lemma rnd_int (z : Z) : (Z.abs z < 2 ^ 53)%Z -> rnd (IZR z) = IZR z.
Proof. intros Hz. rewrite <- F2R_int. apply rnd_exact; lia. Qed.

Lemma int_bound (z : Z) : (Z.abs z < 2 ^ 53)%Z -> Rabs (IZR z) < bpow radix2 emax.
Proof. intros Hz. rewrite <- F2R_int. apply F2R_bound; lia. Qed.

(* of_Z is exact and finite on 53-bit integers *)
Lemma of_uint63_exact (z : Z) : (0 <= z < 2 ^ 53)%Z ->
  B2R (Prim2B (PrimFloat.of_uint63 (Uint63.of_Z z))) = IZR z /\ is_finite (Prim2B (PrimFloat.of_uint63 (Uint63.of_Z z))) = true.
Proof.
  intros Hz. rewrite of_int63_equiv.
  assert (Hto : Uint63.to_Z (Uint63.of_Z z) = z).
  { rewrite Uint63.of_Z_spec. apply Z.mod_small. unfold Uint63.wB. cbn. lia. }
  rewrite Hto.
  pose proof (binary_normalize_correct prec emax Hprec Hmax mode_NE z 0 false) as H.
  cbv zeta in H. rewrite (rnd_exact z 0) in H by lia.
  rewrite Rlt_bool_true in H by (apply F2R_bound; lia).
  destruct H as (HR & HF & _). split; [|exact HF]. rewrite HR. unfold F2R; cbn. lra.
Qed.

Lemma of_Zpos_small (z : Z) : (0 <= z < 2 ^ 53)%Z -> of_Zpos z = PrimFloat.of_uint63 (Uint63.of_Z z).
Proof. intros Hz. unfold of_Zpos. destruct (Z.ltb_spec z 9223372036854775808) as [_|H]; [reflexivity|lia]. Qed.

Lemma of_Z_exact (z : Z) : (Z.abs z < 2 ^ 53)%Z ->
  B2R (Prim2B (of_Z z)) = IZR z /\ is_finite (Prim2B (of_Z z)) = true.
Proof.
  intros Hz. destruct z as [|p|p]; cbn [of_Z].
  - split; reflexivity.
  - rewrite of_Zpos_small by lia. apply of_uint63_exact. lia.
  - rewrite of_Zpos_small by lia. destruct (of_uint63_exact (Zpos p) ltac:(lia)) as [HR HF].
    rewrite opp_equiv, B2R_Bopp, is_finite_Bopp. split; [rewrite HR; rewrite <- opp_IZR; reflexivity|exact HF].
Qed.

(* a float that denotes an integer converts to that integer, under either mode *)
Lemma trunc_of_int (f : PrimFloat.float) (z : Z) : B2R (Prim2B f) = IZR z -> trunc_to_Z f = z.
Proof.
  intros H. unfold trunc_to_Z. apply eq_IZR. rewrite Btrunc_correct, H.
  apply round_generic; [apply valid_rnd_ZR|]. apply generic_format_FIX. exists (Float radix2 z 0); [rewrite F2R_int; reflexivity|reflexivity].
  Unshelve. exact Hmax.
Qed.

Lemma round_of_int (f : PrimFloat.float) (z : Z) : B2R (Prim2B f) = IZR z -> round_to_Z f = z.
Proof.
  intros H. unfold round_to_Z. destruct (Bnearbyint_correct prec emax Hmax mode_NA (Prim2B f)) as (HN & _ & _).
  apply eq_IZR. rewrite Btrunc_correct, HN, H.
  assert (G : generic_format radix2 (FIX_exp 0) (IZR z)).
  { apply generic_format_FIX. exists (Float radix2 z 0); [rewrite F2R_int; reflexivity|reflexivity]. }
  rewrite (round_generic radix2 (FIX_exp 0) (round_mode mode_NA) (IZR z)) by exact G.
  apply round_generic; [apply valid_rnd_ZR|exact G].
  Unshelve. all: exact Hmax.
Qed.

Lemma to_Z_of_int (m : conv_mode) (f : PrimFloat.float) (z : Z) : B2R (Prim2B f) = IZR z -> to_Z m f = z.
Proof. destruct m; [apply trunc_of_int|apply round_of_int]. Qed.

(* a float within 1/2 of an integer rounds (half away) to it *)
Lemma round_near_int (f : PrimFloat.float) (z : Z) : Rabs (B2R (Prim2B f) - IZR z) < 1/2 -> round_to_Z f = z.
Proof.
  intros H. unfold round_to_Z. destruct (Bnearbyint_correct prec emax Hmax mode_NA (Prim2B f)) as (HN & _ & _).
  apply eq_IZR. rewrite Btrunc_correct, HN.
  assert (Hnear : round radix2 (FIX_exp 0) (round_mode mode_NA) (B2R (Prim2B f)) = IZR z).
  { rewrite round_FIX_IZR. f_equal. apply Znearest_imp. lra. }
  rewrite Hnear. apply round_generic; [apply valid_rnd_ZR|].
  apply generic_format_FIX. exists (Float radix2 z 0); [rewrite F2R_int; reflexivity|reflexivity].
  Unshelve. all: exact Hmax.
Qed.

(* the reduction into the target type does nothing in range *)
Lemma wrap_int_id (signed : bool) (bits z : Z) : (0 < bits)%Z -> in_int_range signed bits z -> wrap_int signed bits z = z.
Proof.
  intros Hb Hr. unfold wrap_int, in_int_range in *.
  rewrite !Z.shiftl_1_l.
  assert (Hp : (2 ^ bits = 2 * 2 ^ (bits - 1))%Z).
  { rewrite <- Z.pow_succ_r by lia. f_equal. lia. }
  assert (Hq : (0 < 2 ^ (bits - 1))%Z) by (apply Z.pow_pos_nonneg; lia).
  destruct signed; cbn [andb].
  - destruct (Z_lt_le_dec z 0) as [Hn|Hn].
    + assert (Hm : (z mod 2 ^ bits = z + 2 ^ bits)%Z).
      { symmetry. apply Z.mod_unique with (-1)%Z; lia. }
      rewrite Hm. destruct (Z.leb_spec (2 ^ (bits - 1)) (z + 2 ^ bits)); lia.
    + rewrite Z.mod_small by lia. destruct (Z.leb_spec (2 ^ (bits - 1)) z); lia.
  - apply Z.mod_small. lia.
Qed.

Lemma in_int_range_b_spec (signed : bool) (bits z : Z) : in_int_range_b signed bits z = true <-> in_int_range signed bits z.
Proof. unfold in_int_range_b, in_int_range. destruct signed; rewrite andb_true_iff, Z.leb_le, Z.ltb_lt; tauto. Qed.

(* x / 1 - 0 is x, exactly *)
Lemma apply_unscaled_exact (x : Z) : (Z.abs x < 2 ^ 53)%Z -> B2R (Prim2B (apply x 1 0)) = IZR x.
Proof.
  intros Hx. unfold apply. destruct (of_Z_exact x Hx) as [HX FX].
  pose proof (Bdiv_correct prec emax Hprec Hmax mode_NE (Prim2B (of_Z x)) (Prim2B 1%float)) as Hd.
  assert (H1 : B2R (Prim2B 1%float) = 1) by (vm_compute; lra).
  rewrite H1, HX in Hd. specialize (Hd ltac:(lra)).
  replace (IZR x / 1) with (IZR x) in Hd by field.
  rewrite rnd_int in Hd by exact Hx. rewrite Rlt_bool_true in Hd by (apply int_bound; exact Hx).
  destruct Hd as (HdR & HdF & _). rewrite FX in HdF. rewrite <- div_equiv in HdR, HdF.
  assert (F0 : is_finite (Prim2B 0%float) = true) by reflexivity.
  pose proof (Bminus_correct prec emax Hprec Hmax mode_NE _ _ HdF F0) as Hm.
  assert (H0 : B2R (Prim2B 0%float) = 0) by (vm_compute; reflexivity).
  rewrite HdR, H0, Rminus_0_r in Hm. rewrite rnd_int in Hm by exact Hx.
  rewrite Rlt_bool_true in Hm by (apply int_bound; exact Hx).
  destruct Hm as (HmR & _). rewrite <- sub_equiv in HmR. exact HmR.
Qed.
