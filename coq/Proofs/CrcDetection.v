(* Design-phase feasibility probe (not wired into any check).
   Error-detection algebra for C04 on top of Crc16.v: the bit-serial CRC is GF(2)-linear, a trailing
   own-CRC gives syndrome 0, zero input never kills a non-zero state, and every burst of <= 16
   consecutive bits (LSB-first bit order) has a non-zero syndrome -- for streams of any length. *)
From Coq Require Import NArith Arith List Lia Bool ZifyN ZifyNat ZifyBool.
Import ListNotations.
From Fit Require Import Model.Crc Proofs.CrcProofs.
Open Scope N_scope.

Definition isbit (x : N) := x = 0 \/ x = 1.
Definition bits_ok (l : list N) := Forall isbit l.

Fixpoint xorl (a b : list N) : list N :=
  match a, b with x :: a', y :: b' => N.lxor x y :: xorl a' b' | _, _ => [] end.

Ltac xor_solve :=
  apply N.bits_inj; let n := fresh "n" in intro n; rewrite ?N.lxor_spec, ?N.bits_0;
  repeat match goal with |- context[N.testbit ?x n] => destruct (N.testbit x n) end; reflexivity.

Lemma land1_mod s : N.land s 1 = s mod 2.
Proof. exact (N.land_ones s 1). Qed.
Lemma land1_cases s : N.land s 1 = 0 \/ N.land s 1 = 1.
Proof. rewrite land1_mod. assert (H : s mod 2 < 2) by (apply N.mod_upper_bound; discriminate).
  destruct (s mod 2) as [|[p|p|]]; [left; reflexivity|exfalso; lia|exfalso; lia|right; reflexivity]. Qed.

Lemma land_lxor_distr_l a b c : N.land (N.lxor a b) c = N.lxor (N.land a c) (N.land b c).
Proof. apply N.bits_inj; intro n. rewrite !N.lxor_spec, !N.land_spec, N.lxor_spec.
  destruct (N.testbit a n), (N.testbit b n), (N.testbit c n); reflexivity. Qed.

Definition g (x : N) := if N.eqb x 1 then 0xA001 else 0.
Lemma bitstep_alt s a : bitstep s a = N.lxor (N.shiftr s 1) (g (N.lxor (N.land s 1) a)).
Proof. unfold bitstep, g. destruct (N.eqb _ 1); [reflexivity|rewrite N.lxor_0_r; reflexivity]. Qed.

Lemma bitstep_xor s t a b : isbit a -> isbit b ->
  bitstep (N.lxor s t) (N.lxor a b) = N.lxor (bitstep s a) (bitstep t b).
Proof.
  intros Ha Hb. rewrite !bitstep_alt, N.shiftr_lxor, land_lxor_distr_l.
  destruct (land1_cases s) as [Es|Es], (land1_cases t) as [Et|Et], Ha as [->| ->], Hb as [->| ->];
    rewrite Es, Et; cbn [N.lxor Pos.lxor g N.eqb Pos.eqb]; xor_solve.
Qed.

Lemma isbit_xor a b : isbit a -> isbit b -> isbit (N.lxor a b).
Proof. intros [->| ->] [->| ->]; cbn; [left|right|right|left]; reflexivity. Qed.

Theorem crc_bits_xor : forall a b s t, bits_ok a -> bits_ok b -> length a = length b ->
  crc_bits (N.lxor s t) (xorl a b) = N.lxor (crc_bits s a) (crc_bits t b).
Proof.
  induction a as [|x a IH]; intros [|y b] s t Ha Hb Hl; cbn in Hl; try discriminate; [reflexivity|].
  inversion Ha; inversion Hb; subst. unfold crc_bits in *. cbn [xorl fold_left].
  rewrite bitstep_xor by assumption. apply IH; auto.
Qed.

(* ---- zero input: a shift, and injective at 0 *)
Lemma bitstep_zero_inj s : s < 65536 -> bitstep s 0 = 0 -> s = 0.
Proof.
  intros Hs. unfold bitstep. rewrite N.lxor_0_r, land1_mod, N.shiftr_div_pow2. change (2^1) with 2.
  pose proof (N.div_mod s 2 ltac:(discriminate)) as Hdm.
  assert (Hm : s mod 2 < 2) by (apply N.mod_upper_bound; discriminate).
  destruct (N.eqb_spec (s mod 2) 1) as [E|E]; intros H.
  - apply N.lxor_eq in H. lia.
  - lia.
Qed.

Lemma bitstep_bound_sweep : forallb (fun s => N.ltb (bitstep s 0) 65536 && N.ltb (bitstep s 1) 65536) (Nrange 65536) = true.
Proof. vm_compute. reflexivity. Qed.
Lemma bitstep_bound s a : s < 65536 -> isbit a -> bitstep s a < 65536.
Proof. intros Hs Ha. pose proof bitstep_bound_sweep as H. rewrite forallb_forall in H.
  specialize (H s (in_Nrange _ _ Hs)). apply andb_prop in H. destruct H as [H0 H1].
  destruct Ha as [->| ->]; apply N.ltb_lt; assumption. Qed.

Lemma crc_bits_bound bits : forall s, s < 65536 -> bits_ok bits -> crc_bits s bits < 65536.
Proof. induction bits as [|x r IH]; intros s Hs Hok; cbn; [exact Hs|]. inversion Hok; subst.
  apply IH; [apply bitstep_bound|]; assumption. Qed.

Lemma zeros_keep_nonzero k : forall s, s < 65536 -> s <> 0 -> crc_bits s (repeat 0 k) <> 0.
Proof.
  induction k as [|k IH]; intros s Hs Hn; cbn [repeat crc_bits fold_left]; [assumption|].
  apply IH; [apply bitstep_bound; [exact Hs|left; reflexivity]|].
  intro H0. apply Hn. apply bitstep_zero_inj; assumption.
Qed.

Lemma zeros_keep_zero k : crc_bits 0 (repeat 0 k) = 0.
Proof. induction k as [|k IH]; cbn [repeat crc_bits fold_left]; [reflexivity|]. exact IH. Qed.

(* ---- a state fed its own bits, least significant first, shifts out to zero *)
Lemma own_bit_shifts s : bitstep s (N.land s 1) = N.shiftr s 1.
Proof. unfold bitstep. rewrite N.lxor_nilpotent. reflexivity. Qed.

Lemma own_bits_flush k : forall s, crc_bits s (map (fun i => bit s (N.of_nat i)) (seq 0 k)) = N.shiftr s (N.of_nat k).
Proof.
  (* generalised over the offset: after j steps the state is s >> j and the next bit fed is bit j of s *)
  assert (G : forall m j s, crc_bits (N.shiftr s (N.of_nat j)) (map (fun i => bit s (N.of_nat i)) (seq j m)) = N.shiftr s (N.of_nat (j + m))).
  { clear k. intro m. induction m as [|k IH]; intros j s; cbn [seq map crc_bits fold_left]; [rewrite Nat.add_0_r; reflexivity|].
    unfold bit at 1. rewrite own_bit_shifts, N.shiftr_shiftr.
    replace (N.of_nat j + 1) with (N.of_nat (S j)) by lia. fold (crc_bits (N.shiftr s (N.of_nat (S j)))).
    unfold crc_bits, bit in IH |- *. rewrite IH. f_equal. lia. }
  intros s. specialize (G k 0%nat s). rewrite N.shiftr_0_r in G. exact G.
Qed.

Theorem append_own_crc s : s < 65536 -> crc_bits s (bits_of 16 s) = 0.
Proof.
  intros Hs. unfold bits_of. rewrite own_bits_flush. rewrite N.shiftr_div_pow2. apply N.div_small. exact Hs.
Qed.

(* ---- bursts: a pattern of at most 16 bits that starts with a 1 has a non-zero syndrome from state 0 *)
Fixpoint all_bits (k : nat) : list (list N) :=
  match k with O => [[]] | S k' => map (cons 0) (all_bits k') ++ map (cons 1) (all_bits k') end.
Definition burst_patterns : list (list N) := flat_map (fun k => map (cons 1) (all_bits k)) (seq 0 16).
Lemma burst_sweep : forallb (fun p => negb (N.eqb (crc_bits 0 p) 0)) burst_patterns = true.
Proof. vm_compute. reflexivity. Qed.

Lemma in_all_bits p : bits_ok p -> In p (all_bits (length p)).
Proof. induction 1 as [|x l Hx Hl IH]; cbn; [left; reflexivity|]. apply in_or_app.
  destruct Hx as [->| ->]; [left|right]; apply in_map; exact IH. Qed.

Theorem burst_nonzero p : bits_ok p -> (length p < 16)%nat -> crc_bits 0 (1 :: p) <> 0.
Proof.
  intros Hp Hl. pose proof burst_sweep as H. rewrite forallb_forall in H.
  assert (Hin : In (1 :: p) burst_patterns).
  { unfold burst_patterns. apply in_flat_map. exists (length p). split; [apply in_seq; lia|]. apply in_map, in_all_bits, Hp. }
  specialize (H _ Hin). apply negb_true_iff, N.eqb_neq in H. exact H.
Qed.

(* ---- the detection theorem at the level of bit streams of any length:
       error = zeros ++ 1 :: p ++ zeros with |p| < 16; codeword has syndrome 0 *)
Theorem burst_detected cw i p j :
  bits_ok cw -> bits_ok p -> (length p < 16)%nat ->
  length cw = (i + S (length p) + j)%nat ->
  crc_bits 0 cw = 0 ->
  crc_bits 0 (xorl cw (repeat 0 i ++ 1 :: p ++ repeat 0 j)) <> 0.
Proof.
  intros Hcw Hp Hl Hlen Hsyn.
  set (e := repeat 0 i ++ 1 :: p ++ repeat 0 j).
  assert (He : bits_ok e).
  { unfold e, bits_ok. rewrite !Forall_app. repeat split; try (apply Forall_forall; intros x Hx; apply repeat_spec in Hx; left; exact Hx).
    constructor; [right; reflexivity|]. rewrite Forall_app. split; [exact Hp|apply Forall_forall; intros x Hx; apply repeat_spec in Hx; left; exact Hx]. }
  assert (Hle : length cw = length e).
  { unfold e. rewrite !app_length, !repeat_length. cbn [length]. rewrite app_length, repeat_length. lia. }
  replace 0 with (N.lxor 0 0) at 1 by reflexivity.
  rewrite (crc_bits_xor cw e 0 0 Hcw He Hle), Hsyn, N.lxor_0_l.
  unfold e, crc_bits. rewrite fold_left_app. fold (crc_bits 0 (repeat 0 i)). rewrite zeros_keep_zero.
  change (1 :: p ++ repeat 0 j) with ((1 :: p) ++ repeat 0 j). rewrite fold_left_app.
  fold (crc_bits 0 (1 :: p)). fold (crc_bits (crc_bits 0 (1 :: p)) (repeat 0 j)).
  apply zeros_keep_nonzero; [|apply burst_nonzero; assumption].
  apply crc_bits_bound; [reflexivity|]. constructor; [right; reflexivity|exact Hp].
Qed.

