(* C19 -- lemmas about the rows-of-cells model of fitcsv (Model/Csv.v). *)
From Coq Require Import NArith ZArith List Bool String Ascii Lia Floats ZifyN ZifyNat ZifyBool.
Import ListNotations.
From Fit Require Import Model.Profile Model.Csv gen.CsvConvMode gen.CsvNames gen.CsvLookup.
Open Scope N_scope.
Open Scope list_scope.

(* ------------------------------------------------------------------------------------------------ decimal codec *)
Lemma ascii_N_chr n : n < 256 -> ascii_N (chr n) = n.
Proof. intro H. unfold ascii_N, chr. apply N_ascii_embedding. exact H. Qed.

Lemma is_digit_digit_char d : d < 10 -> is_digit (ascii_N (digit_char d)) = true /\ ascii_N (digit_char d) - 48 = d.
Proof.
  intro H. unfold digit_char. rewrite ascii_N_chr by lia. unfold is_digit.
  split; [apply andb_true_intro; split; apply N.leb_le; lia | lia].
Qed.

Lemma parse_digits_app s t acc :
  parse_digits (append s t) acc = match parse_digits s acc with Some v => parse_digits t v | None => None end.
Proof.
  revert acc. induction s as [|c s IH]; intro acc; cbn [append parse_digits]; [reflexivity|].
  destruct (is_digit (ascii_N c)); [apply IH|reflexivity].
Qed.

Lemma print_fuel_S f n : print_fuel (S f) n =
  if n <? 10 then String (digit_char n) EmptyString else append (print_fuel f (n / 10)) (String (digit_char (n mod 10)) EmptyString).
Proof. reflexivity. Qed.

Lemma parse_print_fuel f : forall n, n < 2 ^ N.of_nat f -> parse_digits (print_fuel (S f) n) 0 = Some n.
Proof.
  induction f as [|f IH]; intros n Hn.
  - cbn in Hn. assert (n = 0) by lia. subst n. reflexivity.
  - rewrite (print_fuel_S (S f) n). destruct (n <? 10) eqn:E.
    + apply N.ltb_lt in E. cbn [parse_digits]. destruct (is_digit_digit_char n E) as [Hd Hv]. rewrite Hd, Hv. f_equal; lia.
    + apply N.ltb_ge in E. rewrite parse_digits_app.
      assert (Hq : n / 10 < 2 ^ N.of_nat f).
      { rewrite Nat2N.inj_succ, N.pow_succ_r' in Hn.
        apply N.div_lt_upper_bound; lia. }
      specialize (IH (n / 10) Hq).
      (* print_fuel (S f) on a value < 10 or >= 10 *)
      rewrite IH.
      cbn [parse_digits]. assert (Hm : n mod 10 < 10) by (apply N.mod_lt; lia).
      destruct (is_digit_digit_char (n mod 10) Hm) as [Hd Hv]. rewrite Hd, Hv. f_equal.
      pose proof (N.div_mod n 10). lia.
Qed.

Lemma print_fuel_nonempty f n : print_fuel (S f) n <> EmptyString.
Proof.
  rewrite print_fuel_S. destruct (n <? 10); [discriminate|].
  destruct (print_fuel f (n / 10)); cbn; discriminate.
Qed.

Theorem parse_print_N n : parse_N (print_N n) = Some n.
Proof.
  unfold parse_N, print_N.
  assert (H : parse_digits (print_fuel (S (N.to_nat (N.size n))) n) 0 = Some n).
  { apply parse_print_fuel. rewrite N2Nat.id. apply N.size_gt. }
  destruct (print_fuel (S (N.to_nat (N.size n))) n) eqn:E; [exfalso; eapply print_fuel_nonempty; exact E|exact H].
Qed.

(* the first character of a printed natural is a digit, hence neither '-' nor '+' *)
Lemma print_fuel_digits f : forall n, forallb (fun b => is_digit b) (bytes_of (print_fuel f n)) = true.
Proof.
  induction f as [|f IH]; intro n; [reflexivity|]. rewrite print_fuel_S. destruct (n <? 10) eqn:E.
  - apply N.ltb_lt in E. cbn [bytes_of forallb]. rewrite (proj1 (is_digit_digit_char n E)). reflexivity.
  - assert (Hm : n mod 10 < 10) by (apply N.mod_lt; lia).
    assert (Happ : forall a b, bytes_of (append a b) = bytes_of a ++ bytes_of b).
    { induction a as [|c a IHa]; intro b; cbn; [reflexivity|f_equal; apply IHa]. }
    rewrite Happ, forallb_app, IH. cbn. rewrite (proj1 (is_digit_digit_char _ Hm)). reflexivity.
Qed.

Theorem parse_print_Z z : parse_Z (print_Z z) = Some z.
Proof.
  unfold print_Z. destruct (z <? 0)%Z eqn:E.
  - apply Z.ltb_lt in E. cbn [parse_Z]. rewrite parse_print_N. f_equal. lia.
  - apply Z.ltb_ge in E. unfold parse_Z.
    pose proof (print_fuel_digits (S (N.to_nat (N.size (Z.to_N z)))) (Z.to_N z)) as Hd.
    pose proof (parse_print_N (Z.to_N z)) as Hp. unfold print_N in *.
    destruct (print_fuel (S (N.to_nat (N.size (Z.to_N z)))) (Z.to_N z)) as [|c r] eqn:Es; [discriminate Hp|].
    cbn in Hd. apply andb_true_iff in Hd as [Hc _].
    assert (Hnm : c <> "-"%char /\ c <> "+"%char).
    { split; intro Hx; subst c; cbv in Hc; discriminate. }
    destruct Hnm as [H1 H2].
    destruct c as [b0 b1 b2 b3 b4 b5 b6 b7].
    destruct b0, b1, b2, b3, b4, b5, b6, b7; try (exfalso; apply H1; reflexivity); try (exfalso; apply H2; reflexivity);
      rewrite Hp; f_equal; lia.
Qed.

Lemma parse_uint_print bits z : (0 <= z < 2 ^ Z.of_N bits)%Z -> parse_uint bits (print_Z z) = Some z.
Proof.
  intros [H0 H1]. unfold parse_uint, print_Z. replace (z <? 0)%Z with false by (symmetry; apply Z.ltb_ge; lia).
  rewrite parse_print_N.
  replace (Z.to_N z <? 2 ^ bits) with true.
  - f_equal. lia.
  - symmetry. apply N.ltb_lt. apply N2Z.inj_lt. rewrite N2Z.inj_pow, Z2N.id by lia. exact H1.
Qed.

Lemma parse_int_print bits z : (- 2 ^ (Z.of_N bits - 1) <= z < 2 ^ (Z.of_N bits - 1))%Z -> parse_int bits (print_Z z) = Some z.
Proof.
  intros [H0 H1]. unfold parse_int. rewrite parse_print_Z.
  replace (- 2 ^ (Z.of_N bits - 1) <=? z)%Z with true by (symmetry; apply Z.leb_le; lia).
  replace (z <? 2 ^ (Z.of_N bits - 1))%Z with true by (symmetry; apply Z.ltb_lt; lia). reflexivity.
Qed.

(* printed integers contain no '.', so parseValue never takes them for scaled text *)
Lemma contains_char_bytes c s : contains_char c s = existsb (N.eqb c) (bytes_of s).
Proof. induction s as [|a s IH]; cbn; [reflexivity|]. rewrite IH, (N.eqb_sym (ascii_N a) c). reflexivity. Qed.

Lemma no_dot_print_N n : has_dot (print_N n) = false.
Proof.
  unfold has_dot, print_N. rewrite contains_char_bytes.
  pose proof (print_fuel_digits (S (N.to_nat (N.size n))) n) as Hd.
  induction (bytes_of (print_fuel (S (N.to_nat (N.size n))) n)) as [|b l IH]; [reflexivity|].
  cbn [forallb existsb] in *. apply andb_true_iff in Hd as [Hb Hl]. rewrite (IH Hl), orb_false_r.
  unfold is_digit in Hb. apply andb_true_iff in Hb as [H1 H2]. apply N.leb_le in H1. apply N.eqb_neq. lia.
Qed.
Lemma no_dot_print_Z z : has_dot (print_Z z) = false.
Proof.
  unfold print_Z. destruct (z <? 0)%Z; [|apply no_dot_print_N].
  unfold has_dot. cbn [contains_char]. replace (ascii_N "-" =? 46) with false by reflexivity. apply no_dot_print_N.
Qed.

(* ------------------------------------------------------------------------------------------------ column count *)
Section Rows.
Variable fmtf : bool -> N -> string.

Lemma flat_map_length3 {A} (f : A -> list string) (l : list A) :
  (forall x, List.length (f x) = 3%nat) -> List.length (flat_map f l) = (3 * List.length l)%nat.
Proof. intro H. induction l as [|x l IH]; cbn; [reflexivity|]. rewrite app_length, H, IH. lia. Qed.

Lemma field_cells_length o mnum fs f : List.length (field_cells fmtf o mnum fs f) = 3%nat.
Proof. unfold field_cells. destruct (sub_subst fs (fi_subs (field_info mnum (f_num f)))) as [[[? ?] ?]|]; reflexivity. Qed.
Lemma dev_cells_length o ds d : List.length (dev_cells fmtf o ds d) = 3%nat.
Proof. unfold dev_cells. destruct (find_fdesc ds (d_idx d) (d_num d)); reflexivity. Qed.

Lemma data_row_length o ds m :
  List.length (data_row fmtf o ds m) = (3 + 3 * (List.length (m_fields m) + List.length (m_devs m)))%nat.
Proof.
  unfold data_row. rewrite !app_length.
  rewrite (flat_map_length3 _ _ (field_cells_length o (m_num m) (m_fields m))), (flat_map_length3 _ _ (dev_cells_length o ds)).
  cbn [List.length]. lia.
Qed.
Lemma def_row_length o ds local num fdefs ddefs :
  List.length (def_row o ds local num fdefs ddefs) = (3 + 3 * (List.length fdefs + List.length ddefs))%nat.
Proof.
  unfold def_row. rewrite !app_length. rewrite !flat_map_length3; [cbn [List.length]; lia| |].
  - intros [[? ?] ?]. reflexivity.
  - intros [[? ?] ?]. reflexivity.
Qed.

Definition rows_fit (st : wstate) : Prop :=
  Forall (fun r => exists k, List.length r = (3 + 3 * k)%nat /\ (k <= N.to_nat (w_max st))%nat) (w_rows st).

Lemma step_event_fit o st e : rows_fit st -> rows_fit (step_event fmtf o st e).
Proof.
  intro H. unfold rows_fit in *. destruct e as [local num fdefs ddefs|m]; cbn [step_event w_rows w_max].
  - constructor.
    + exists (List.length fdefs + List.length ddefs)%nat. split; [apply def_row_length|lia].
    + eapply Forall_impl; [|exact H]. cbn. intros r (k & Hk & Hle). exists k. split; [exact Hk|lia].
  - constructor.
    + exists (List.length (m_fields m) + List.length (m_devs m))%nat. split; [apply data_row_length|lia].
    + eapply Forall_impl; [|exact H]. cbn. intros r (k & Hk & Hle). exists k. split; [exact Hk|lia].
Qed.

Lemma run_events_fit o evs st : rows_fit st -> rows_fit (fold_left (step_event fmtf o) evs st).
Proof. revert st. induction evs as [|e evs IH]; intros st H; cbn; [exact H|]. apply IH, step_event_fit, H. Qed.

Lemma header_cells_length k i : List.length (header_cells k i) = (3 * k)%nat.
Proof. revert i. induction k as [|k IH]; intro i; cbn [header_cells]; [reflexivity|]. rewrite app_length, IH. cbn. lia. Qed.
Lemma header_row_length maxf : List.length (header_row maxf) = (3 + 3 * N.to_nat maxf)%nat.
Proof. unfold header_row. rewrite app_length, header_cells_length. reflexivity. Qed.

(* every row of the CSV (header, definition rows, data rows) has the header's number of cells *)
Theorem columns_uniform o evs : o_trim o = false ->
  Forall (fun r => List.length r = List.length (header_row (w_max (run_events fmtf o evs)))) (fit_to_rows fmtf o evs).
Proof.
  intro Ht. unfold fit_to_rows. rewrite Ht. constructor; [reflexivity|].
  rewrite header_row_length. apply Forall_forall. intros r Hin. apply in_map_iff in Hin as (r0 & <- & Hin0).
  apply in_rev in Hin0.
  assert (Hfit : rows_fit (run_events fmtf o evs)) by (apply run_events_fit; constructor).
  unfold rows_fit in Hfit. rewrite Forall_forall in Hfit. destruct (Hfit r0 Hin0) as (k & Hk & Hle).
  unfold pad_row. rewrite app_length, repeat_length. lia.
Qed.

(* with the trim option no row is wider than the header *)
Theorem columns_trim o evs : o_trim o = true ->
  Forall (fun r => (List.length r <= List.length (header_row (w_max (run_events fmtf o evs))))%nat) (fit_to_rows fmtf o evs).
Proof.
  intro Ht. unfold fit_to_rows. rewrite Ht. constructor; [lia|].
  rewrite header_row_length. apply Forall_forall. intros r Hin. apply in_rev in Hin.
  assert (Hfit : rows_fit (run_events fmtf o evs)) by (apply run_events_fit; constructor).
  unfold rows_fit in Hfit. rewrite Forall_forall in Hfit. destruct (Hfit r Hin) as (k & Hk & Hle). lia.
Qed.
End Rows.

(* text layer of one line (fit_to_csv.go writes name,"value",units without quoting names and units; copy() counts the commas
   outside quotes): for cells without comma / quote the count is the number of cells - 1, which is what the padding relies on.
   A name or units text with a comma breaks it: profile check below. *)
Definition clean_text (s : string) : bool := negb (contains_char 44 s) && negb (contains_char 34 s) && negb (contains_char 10 s) && negb (contains_char 13 s).
Definition profile_texts_clean : bool :=
  forallb (fun e => match e with (_, _, n, u, subs) => clean_text n && clean_text u && forallb (fun p => clean_text (fst p) && clean_text (snd p)) subs end)
          Fit.gen.FactoryNames.names.
Definition first_unclean :=
  find (fun e => match e with (_, _, n, u, subs) => negb (clean_text n && clean_text u && forallb (fun p => clean_text (fst p) && clean_text (snd p)) subs) end)
       Fit.gen.FactoryNames.names.

(* ------------------------------------------------------------------------------------------------ one cell: raw and scaled *)
(* integer base types: (value kind, width, signed) as parseValue's switch has them *)
Definition int_shape (bt : N) : option (vkind * N * bool) :=
  if (bt =? 0) || (bt =? 13) || (bt =? 2) || (bt =? 10) then Some (KUint8, 8, false)
  else if bt =? 1 then Some (KInt8, 8, true)
  else if bt =? 131 then Some (KInt16, 16, true)
  else if (bt =? 132) || (bt =? 139) then Some (KUint16, 16, false)
  else if bt =? 133 then Some (KInt32, 32, true)
  else if (bt =? 134) || (bt =? 140) then Some (KUint32, 32, false)
  else if bt =? 142 then Some (KInt64, 64, true)
  else if (bt =? 143) || (bt =? 144) then Some (KUint64, 64, false)
  else None.
Definition int_base_types : list N := [0; 13; 2; 10; 1; 131; 132; 139; 133; 134; 140; 142; 143; 144].
Lemma int_shape_cases bt r : int_shape bt = Some r -> In bt int_base_types.
Proof.
  unfold int_shape, int_base_types. intro H.
  repeat match type of H with
         | context [N.eqb bt ?c] => let E := fresh "E" in destruct (N.eqb bt c) eqn:E;
                                     [apply N.eqb_eq in E; subst bt; cbn; tauto|]
         end.
  cbn in H. discriminate.
Qed.
Definition in_range (bits : N) (signed : bool) (z : Z) : Prop :=
  if signed then (- 2 ^ (Z.of_N bits - 1) <= z < 2 ^ (Z.of_N bits - 1))%Z else (0 <= z < 2 ^ Z.of_N bits)%Z.
Definition wrap (bits : N) (signed : bool) (z : Z) : Z := if signed then wrap_s bits z else wrap_u bits z.

Ltac eval_eqb :=
  repeat match goal with
         | |- context [N.eqb ?a ?b] =>
             let v := eval vm_compute in (N.eqb a b) in
             match v with true => change (N.eqb a b) with true | false => change (N.eqb a b) with false end
         end.

Section Cell.
Variable fmtf : bool -> N -> string.
Variable parse64 parse32 : string -> option N.

(* raw mode: a printed integer is parsed back to itself by parseValue, for every integer base type *)
Lemma raw_int_cell bt pt s o units k bits sg z :
  int_shape bt = Some (k, bits, sg) -> (pt =? profile_bool) = false ->
  (String.eqb units units_degrees_parsed && (bt =? 133)) = false -> in_range bits sg z ->
  parse_value parse64 parse32 (print_Z z) bt pt s o units = Some (VOne k (SZ z)).
Proof.
  intros Hs Hpt Hu Hr. pose proof (int_shape_cases bt _ Hs) as Hin. unfold int_base_types in Hin.
  unfold parse_value. rewrite Hu, Hpt, no_dot_print_Z, andb_false_r.
  repeat (destruct Hin as [<-|Hin]; [cbn in Hs; injection Hs as <- <- <-; eval_eqb; cbn [orb andb negb]; unfold in_range in Hr;
    first [rewrite parse_uint_print by exact Hr | rewrite parse_int_print by exact Hr]; reflexivity|]).
  destruct Hin.
Qed.

(* what the scaled text of raw value x comes back as: the per-field arithmetic of C12 *)
Definition scaled_back (bits : N) (sg : bool) (s o : N) (x : Z) : Z :=
  wrap bits sg (to_int_Z (discard_f (float_of_bits (bits_of_float (apply_f (float_of_Z x) s o))) s o)).
(* the classifier of finding trunc_loses_unit *)
Definition trunc_loses_unit (bits : N) (sg : bool) (s o : N) (x : Z) : bool := negb (scaled_back bits sg s o x =? x)%Z.

Lemma scaled_int_cell bt pt s o units k bits sg x :
  int_shape bt = Some (k, bits, sg) -> (pt =? profile_bool) = false ->
  (String.eqb units units_degrees_parsed && (bt =? 133)) = false ->
  is_unit_scale s o = false -> is_int_kind k = true ->
  let b := bits_of_float (apply_f (float_of_Z x) s o) in
  has_dot (fmtf false b) = true -> parse64 (fmtf false b) = Some b ->
  parse_value parse64 parse32 (format_value fmtf (apply_value (VOne k (SZ x)) s o)) bt pt s o units
  = Some (VOne k (SZ (scaled_back bits sg s o x))).
Proof.
  intros Hs Hpt Hu Hsc Hk b Hdot Hparse. pose proof (int_shape_cases bt _ Hs) as Hin. unfold int_base_types in Hin.
  unfold apply_value. rewrite Hsc, Hk. cbn [orb format_value fmt_scalar apply_scalar]. fold b.
  unfold parse_value. rewrite Hu, Hpt, Hdot, Hparse. unfold scaled_back. fold b.
  repeat (destruct Hin as [<-|Hin]; [cbn in Hs; injection Hs as <- <- <-; eval_eqb; cbn [orb andb negb wrap]; reflexivity|]).
  destruct Hin.
Qed.

(* reduction: the scaled cell round-trips exactly when the arithmetic obligation holds for that value *)
Theorem scaled_cell_iff bt pt s o units k bits sg x :
  int_shape bt = Some (k, bits, sg) -> (pt =? profile_bool) = false ->
  (String.eqb units units_degrees_parsed && (bt =? 133)) = false ->
  is_unit_scale s o = false -> is_int_kind k = true ->
  let b := bits_of_float (apply_f (float_of_Z x) s o) in
  has_dot (fmtf false b) = true -> parse64 (fmtf false b) = Some b ->
  (parse_value parse64 parse32 (format_value fmtf (apply_value (VOne k (SZ x)) s o)) bt pt s o units = Some (VOne k (SZ x))
   <-> scaled_back bits sg s o x = x).
Proof.
  intros Hs Hpt Hu Hsc Hk b Hdot Hparse. rewrite (scaled_int_cell bt pt s o units k bits sg x Hs Hpt Hu Hsc Hk Hdot Hparse).
  split; [intro H; injection H as H; exact H|intros ->; reflexivity].
Qed.
End Cell.

(* record.distance (message 20, field 5, uint32, scale 100): 16039 comes back as 16038 under the conversion the source uses *)
Definition scale_100 : N := 4636737291354636288.
Lemma distance_is_scaled : option_map (fun fb => (fb_base fb, fb_scale fb, fb_offset fb)) (Fit.gen.Factory.factory 20 5) = Some (134, scale_100, 0).
Proof. vm_compute. reflexivity. Qed.

Definition first_unclean_units :=
  find (fun e => match e with (_, _, _, u, _) => negb (clean_text u) end) Fit.gen.FactoryNames.names.
(* whatever entry the search returns is a profile field whose units cannot be written unquoted *)
Lemma units_with_comma_witness : forall w, first_unclean_units = Some w ->
  exists m f n u subs, w = (m, f, n, u, subs) /\ In w Fit.gen.FactoryNames.names /\ clean_text u = false.
Proof.
  intros [[[[m f] n] u] subs] E. exists m, f, n, u, subs. unfold first_unclean_units in E.
  apply find_some in E as [Hin Hc]. split; [reflexivity|]. split; [exact Hin|]. cbn in Hc. apply negb_true_iff in Hc. exact Hc.
Qed.

Lemma scaled_refuted : parse_conv_mode = ConvTruncate ->
  exists bits sg s o x, in_range bits sg x /\ scaled_back bits sg s o x <> x /\ trunc_loses_unit bits sg s o x = true.
Proof.
  intro Hmode. exists 32, false, scale_100, 0, 16039%Z.
  unfold parse_conv_mode in Hmode.
  first [ discriminate Hmode
        | split; [unfold in_range; cbn; lia|]; split; [vm_compute; discriminate | vm_compute; reflexivity] ].
Qed.

(* ------------------------------------------------------------------------------------------------ sequences (CSV -> FIT side) *)
Section Chain.
Variable parse64 parse32 : string -> option N.

(* a record that convert() treats as a file_id message: "Data" row whose message name resolves to number 0 *)
Definition is_file_id_row (record : list string) : bool :=
  match record with
  | header :: _ :: name :: _ =>
      String.eqb header "Data" && match resolve_mesg_num name with Some (Some n) => n =? file_id_num | _ => false end
  | _ => false
  end.
Definition count_file_id_rows (rows : list (list string)) : nat := List.length (filter is_file_id_row rows).

(* invariant of convert(): finished sequences = file_id rows seen - 1 (0 before the first one); the counter counts them *)
Definition chain_inv (st : rstate) (k : nat) : Prop := r_seq st = N.of_nat k /\ List.length (r_done st) = (k - 1)%nat.

Lemma step_row_chain st record st' k :
  step_row parse64 parse32 st record = Some st' -> chain_inv st k ->
  chain_inv st' (if is_file_id_row record then S k else k).
Proof.
  unfold step_row, is_file_id_row, chain_inv. intros H [Hs Hd].
  destruct record as [|header [|c1 [|name rest]]]; try (injection H as <-; split; assumption).
  destruct (String.eqb header "Data"); cbn [andb]; [|injection H as <-; split; assumption].
  destruct (resolve_mesg_num name) as [[mnum|]|]; [|injection H as <-; split; assumption|discriminate H].
  destruct (mnum =? file_id_num) eqn:Ef.
  - (* a file_id row: the sequence counter moves, a sequence is closed unless it is the first *)
    destruct (r_seq st =? 0) eqn:E0.
    + apply N.eqb_eq in E0. assert (k = 0%nat) by lia. subst k.
      destruct (create_mesg parse64 parse32 _ mnum _) as [m|]; [|discriminate H].
      destruct (m_fields m), (m_devs m); injection H as <-; cbn [r_seq r_done]; split; try reflexivity; cbn in *; lia.
    + apply N.eqb_neq in E0.
      destruct (create_mesg parse64 parse32 _ mnum _) as [m|]; [|discriminate H].
      destruct (m_fields m), (m_devs m); injection H as <-; cbn [r_seq r_done]; rewrite ?app_length; cbn [List.length];
        split; lia.
  - destruct (create_mesg parse64 parse32 _ mnum _) as [m|]; [|discriminate H].
    destruct (m_fields m), (m_devs m); injection H as <-; cbn [r_seq r_done]; split; assumption.
Qed.

Lemma run_rows_chain rows : forall st st' k,
  run_rows parse64 parse32 st rows = Some st' -> chain_inv st k ->
  chain_inv st' (k + count_file_id_rows rows).
Proof.
  induction rows as [|r rows IH]; intros st st' k H Hinv; cbn [run_rows] in H.
  - injection H as <-. unfold count_file_id_rows. cbn. rewrite Nat.add_0_r. exact Hinv.
  - destruct (step_row parse64 parse32 st r) as [st1|] eqn:E; [|discriminate H].
    pose proof (step_row_chain st r st1 k E Hinv) as H1. specialize (IH st1 st' _ H H1).
    unfold count_file_id_rows in *. cbn [filter]. destruct (is_file_id_row r); cbn [List.length]; [|exact IH].
    replace (k + S (List.length (filter is_file_id_row rows)))%nat with (S k + List.length (filter is_file_id_row rows))%nat by lia. exact IH.
Qed.

(* the FIT output has one sequence per file_id row of the CSV (one sequence if there is none) *)
Theorem sequences_follow_file_id rows seqs :
  rows_to_fit parse64 parse32 rows = Some seqs -> List.length seqs = Nat.max 1 (count_file_id_rows rows).
Proof.
  unfold rows_to_fit. destruct (run_rows parse64 parse32 _ rows) as [st|] eqn:E; [|discriminate]. intro H. injection H as <-.
  pose proof (run_rows_chain rows _ st 0%nat E) as Hc. destruct Hc as [_ Hd]; [split; reflexivity|].
  rewrite app_length. cbn [List.length]. cbn in Hd. lia.
Qed.
End Chain.

(* the row of a message with number 0 is a file_id row, for every option set (names come from the dumped / translated tables) *)
Lemma file_id_name_resolves : forall v, resolve_mesg_num (mesg_name v 0) = Some (Some 0).
Proof. intros [|]; vm_compute; reflexivity. Qed.
(* no other profile message name resolves to 0 *)
Lemma other_names_do_not_resolve_to_file_id :
  forallb (fun p => (fst p =? 0) || negb (match resolve_mesg_num (snd p) with Some (Some n) => n =? 0 | _ => false end)) mesg_names = true.
Proof. vm_compute. reflexivity. Qed.
