(* Proofs/ScaledRoundtrip32.v -- C12_32bit (also the core of C05_value_32) on the executable primitive-float model,
   for a ROUNDING conversion (Go: intNN(math.Round((float64(x)/s - o + o) * s))):
   for every integer |x| <= 2^32 and every finite scale 1/2 <= s <= 2^17 and offset |o| <= 2^10 the raw value comes
   back exactly, on the helper, slice and accessor routes.  Combines Flocq's operation correctness theorems,
   error_N_FLT and the real-number bound of ScaleOffsetError.v (four roundings stay within 1/4 of x). *)
From Coq Require Import ZArith NArith Reals Floats Lia Lra Bool.
From Flocq Require Import Core.Core Relative IEEE754.BinarySingleNaN IEEE754.PrimFloat.
From Interval Require Import Tactic.
From Fit Require Import Model.Float Model.Profile Model.Scale Proofs.FloatProofs Proofs.ScaleProofs Proofs.SweepProofs Proofs.ScaleOffsetError.
Open Scope R_scope.
#[local] Existing Instance Hprec.
#[local] Existing Instance Hmax.

Lemma format_bpow k : (-1074 <= k <= 1023)%Z -> generic_format radix2 fexp (bpow radix2 k).
Proof.
  intros Hk. change fexp with (FLT_exp (SpecFloat.emin prec emax) prec). apply generic_format_bpow'.
  - apply FLT_exp_valid. reflexivity.
  - unfold FLT_exp, SpecFloat.emin, prec, emax. lia.
Qed.

Lemma rnd_bound y k : (-1074 <= k <= 1023)%Z -> Rabs y <= bpow radix2 k -> Rabs (rnd y) <= bpow radix2 k /\ Rabs (rnd y) < bpow radix2 emax.
Proof.
  intros Hk Hy. assert (H : Rabs (rnd y) <= bpow radix2 k).
  { apply abs_round_le_generic; [apply fexp_correct; reflexivity|apply valid_rnd_N|apply format_bpow; exact Hk|exact Hy]. }
  split; [exact H|]. eapply Rle_lt_trans; [exact H|]. apply bpow_lt. unfold emax. lia.
Qed.

Lemma rnd_error y : exists e h, Rabs e <= 1/9007199254740992 /\ Rabs h <= 1/1000000000000 /\ rnd y = y * (1 + e) + h.
Proof.
  destruct (error_N_FLT radix2 (SpecFloat.emin prec emax) prec ltac:(reflexivity) (fun n => negb (Z.even n)) y) as (e & h & He & Hh & _ & Hr).
  exists e, h. split; [|split].
  - eapply Rle_trans; [exact He|]. unfold prec. simpl bpow. lra.
  - eapply Rle_trans; [exact Hh|]. change (SpecFloat.emin prec emax) with (-1074)%Z.
    pose proof (bpow_ge_0 radix2 (-1074)) as H0.
    assert (H1 : bpow radix2 (-1074) <= bpow radix2 (-40)) by (apply bpow_le; lia).
    assert (H2 : bpow radix2 (-40) <= 1/1000000000000) by (simpl bpow; lra).
    lra.
  - exact Hr.
Qed.

(* the restored float (x/s - o + o) * s is finite and within 1/4 of x *)
Theorem restored_close (x : Z) (s o : PrimFloat.float) :
  (Z.abs x <= 2 ^ 32)%Z ->
  is_finite (Prim2B s) = true -> is_finite (Prim2B o) = true ->
  1/2 <= B2R (Prim2B s) <= 131072 -> Rabs (B2R (Prim2B o)) <= 1024 ->
  is_finite (Prim2B (discard_scaled (apply x s o) s o)) = true /\
  Rabs (B2R (Prim2B (discard_scaled (apply x s o) s o)) - IZR x) <= 1/4.
Proof.
  intros Hx Fs Fo Hs Ho. unfold discard_scaled, apply.
  set (S := B2R (Prim2B s)) in *. set (O := B2R (Prim2B o)) in *.
  destruct (of_Z_exact x ltac:(lia)) as [HX FX].
  assert (HXb : Rabs (IZR x) <= 4294967296).
  { rewrite <- abs_IZR. apply IZR_le in Hx. exact Hx. }
  (* a = fl(x / s) *)
  pose proof (Bdiv_correct prec emax Hprec Hmax mode_NE (Prim2B (of_Z x)) (Prim2B s)) as Ha.
  assert (HS0 : S <> 0) by lra. specialize (Ha HS0). rewrite HX in Ha. fold S in Ha.
  destruct (rnd_bound (IZR x / S) 34 ltac:(lia)) as [Hab Hao].
  { change (bpow radix2 34) with 17179869184. unfold Rdiv. interval. }
  rewrite Rlt_bool_true in Ha by exact Hao. destruct Ha as (HA & FA & _). rewrite FX in FA. rewrite <- div_equiv in HA, FA.
  (* b = fl(a - o) *)
  pose proof (Bminus_correct prec emax Hprec Hmax mode_NE _ _ FA Fo) as Hb. rewrite HA in Hb. fold O in Hb.
  destruct (rnd_bound (rnd (IZR x / S) - O) 35 ltac:(lia)) as [Hbb Hbo].
  { change (bpow radix2 34) with 17179869184 in Hab. change (bpow radix2 35) with 34359738368.
    revert Hab. generalize (rnd (IZR x / S)). intros A Hab. interval. }
  rewrite Rlt_bool_true in Hb by exact Hbo. destruct Hb as (HB & FB & _). rewrite <- sub_equiv in HB, FB.
  (* c = fl(b + o) *)
  pose proof (Bplus_correct prec emax Hprec Hmax mode_NE _ _ FB Fo) as Hc. rewrite HB in Hc. fold O in Hc.
  destruct (rnd_bound (rnd (rnd (IZR x / S) - O) + O) 36 ltac:(lia)) as [Hcb Hco].
  { change (bpow radix2 35) with 34359738368 in Hbb. change (bpow radix2 36) with 68719476736.
    revert Hbb. generalize (rnd (rnd (IZR x / S) - O)). intros Bv Hbb. interval. }
  rewrite Rlt_bool_true in Hc by exact Hco. destruct Hc as (HC & FC & _). rewrite <- add_equiv in HC, FC.
  (* d = fl(c * s) *)
  pose proof (Bmult_correct prec emax Hprec Hmax mode_NE
                (Prim2B (PrimFloat.add (PrimFloat.sub (PrimFloat.div (of_Z x) s) o) o)) (Prim2B s)) as Hd.
  rewrite HC in Hd. fold S in Hd.
  destruct (rnd_bound (rnd (rnd (rnd (IZR x / S) - O) + O) * S) 54 ltac:(lia)) as [Hdb Hdo].
  { change (bpow radix2 36) with 68719476736 in Hcb. change (bpow radix2 54) with 18014398509481984.
    revert Hcb. generalize (rnd (rnd (rnd (IZR x / S) - O) + O)). intros Cv Hcb. interval. }
  rewrite Rlt_bool_true in Hd by exact Hdo. destruct Hd as (HD & FD & _). rewrite FC, Fs in FD. cbn [andb] in FD.
  rewrite <- mul_equiv in HD, FD.
  split; [exact FD|].
  (* error analysis *)
  destruct (rnd_error (IZR x / S)) as (e1 & h1 & E1 & G1 & R1).
  destruct (rnd_error (rnd (IZR x / S) - O)) as (e2 & h2 & E2 & G2 & R2).
  destruct (rnd_error (rnd (rnd (IZR x / S) - O) + O)) as (e3 & h3 & E3 & G3 & R3).
  destruct (rnd_error (rnd (rnd (rnd (IZR x / S) - O) + O) * S)) as (e4 & h4 & E4 & G4 & R4).
  rewrite HD, R4, R3, R2, R1. apply (scaled_roundtrip_error (IZR x) S O e1 e2 e3 e4 h1 h2 h3 h4); assumption.
Qed.

(* boolean form of the hypotheses, decidable on a table *)
Definition is_finite_b (f : PrimFloat.float) : bool := negb (PrimFloat.is_nan f) && negb (is_inf f).
Definition bounds_ok (s o : PrimFloat.float) : bool :=
  is_finite_b s && is_finite_b o && (0.5 <=? s)%float && (s <=? 131072)%float && (PrimFloat.abs o <=? 1024)%float.

Lemma is_finite_b_spec (f : PrimFloat.float) : is_finite_b f = true -> is_finite (Prim2B f) = true.
Proof.
  unfold is_finite_b, is_inf. rewrite is_nan_equiv, !eqb_equiv, infinity_equiv, neg_infinity_equiv, !Prim2B_B2Prim.
  destruct (Prim2B f) as [sg|sg| |sg m e p]; try reflexivity.
  - destruct sg; vm_compute; intros H; discriminate H.
  - vm_compute; intros H; discriminate H.
Qed.

Lemma bounds_ok_spec (s o : PrimFloat.float) : bounds_ok s o = true ->
  is_finite (Prim2B s) = true /\ is_finite (Prim2B o) = true /\ 1/2 <= B2R (Prim2B s) <= 131072 /\ Rabs (B2R (Prim2B o)) <= 1024.
Proof.
  unfold bounds_ok. rewrite !andb_true_iff. intros [[[[Fs Fo] H1] H2] H3].
  apply is_finite_b_spec in Fs, Fo.
  assert (Fh : is_finite (Prim2B 0.5%float) = true) by reflexivity.
  assert (Fm : is_finite (Prim2B 131072%float) = true) by reflexivity.
  assert (Fk : is_finite (Prim2B 1024%float) = true) by reflexivity.
  rewrite leb_equiv, Bleb_correct in H1 by assumption.
  rewrite leb_equiv, Bleb_correct in H2 by assumption.
  rewrite leb_equiv, abs_equiv, Bleb_correct in H3 by (try rewrite is_finite_Babs; assumption).
  rewrite B2R_Babs in H3.
  apply Rle_bool_true_iff in H1, H2, H3 || idtac.
  assert (Eh : B2R (Prim2B 0.5%float) = 1/2) by (vm_compute; lra).
  assert (Em : B2R (Prim2B 131072%float) = 131072) by (vm_compute; lra).
  assert (Ek : B2R (Prim2B 1024%float) = 1024) by (vm_compute; lra).
  destruct (Rle_bool_spec (B2R (Prim2B 0.5%float)) (B2R (Prim2B s))) as [G1|G1]; [|discriminate H1].
  destruct (Rle_bool_spec (B2R (Prim2B s)) (B2R (Prim2B 131072%float))) as [G2|G2]; [|discriminate H2].
  destruct (Rle_bool_spec (Rabs (B2R (Prim2B o))) (B2R (Prim2B 1024%float))) as [G3|G3]; [|discriminate H3].
  rewrite Eh in G1. rewrite Em in G2. rewrite Ek in G3. repeat split; assumption.
Qed.

Section Bits32.
  Variables (bt : N) (s o : PrimFloat.float).
  Hypothesis Hbits : (0 < bt_bits bt <= 32)%Z.
  Hypothesis Hb : bounds_ok s o = true.
  Hypothesis Hsc : is_unscaled s o = false.

  Lemma in_range_32 (x : Z) : in_range bt x -> (Z.abs x <= 2 ^ 32)%Z.
  Proof.
    unfold in_range, in_int_range. intros H.
    assert (H1 : (2 ^ bt_bits bt <= 2 ^ 32)%Z) by (apply Z.pow_le_mono_r; lia).
    assert (H2 : (2 ^ (bt_bits bt - 1) <= 2 ^ 32)%Z) by (apply Z.pow_le_mono_r; lia).
    destruct (bt_signed bt); lia.
  Qed.

  Theorem helper_round_32 (x : Z) : in_range bt x -> rt_helper Round bt s o x = x.
  Proof.
    intros Hr. destruct (bounds_ok_spec s o Hb) as (Fs & Fo & HS & HO).
    destruct (restored_close x s o (in_range_32 x Hr) Fs Fo HS HO) as [_ Hc].
    unfold rt_helper, discard_value, discard. rewrite Hsc. unfold to_int. cbn [to_Z].
    rewrite (round_near_int _ x) by lra. apply wrap_int_id; [lia|exact Hr].
  Qed.

  (* the generated setter's guard does not fire on a restored valid value *)
  Lemma guard_32 (x : Z) : in_range bt x -> (x < bt_invalid bt)%Z -> setter_guard bt (discard (apply x s o) s o) = false.
  Proof.
    intros Hr Hlt. destruct (bounds_ok_spec s o Hb) as (Fs & Fo & HS & HO).
    destruct (restored_close x s o (in_range_32 x Hr) Fs Fo HS HO) as [Ff Hc].
    unfold discard. rewrite Hsc. unfold setter_guard.
    rewrite orb_false_iff. split; [apply finite_not_nan_inf; exact Ff|].
    assert (Hinv : (Z.abs (bt_invalid bt) < 2 ^ 53)%Z).
    { pose proof (in_range_32 x Hr) as Hx32.
      assert (Hi : (0 <= bt_invalid bt <= 2 ^ 32)%Z).
      { unfold bt_invalid, bt_bits in *. destruct bt as [|p]; cbn in *; try lia.
        repeat (destruct p as [p|p|]; cbn in *; try lia). }
      change (2 ^ 53)%Z with 9007199254740992%Z. change (2 ^ 32)%Z with 4294967296%Z in Hi. lia. }
    destruct (of_Z_exact (bt_invalid bt) Hinv) as [HI FI].
    rewrite ltb_equiv, Bltb_correct by assumption. rewrite HI.
    apply Rlt_bool_false. apply Rabs_le_inv in Hc.
    assert (Hle : IZR x + 1 <= IZR (bt_invalid bt)). { rewrite <- plus_IZR. apply IZR_le. lia. }
    lra.
  Qed.

  Lemma setter_nan_32 (m : conv_mode) : rt_setter m bt s o (bt_invalid bt) = bt_invalid bt.
  Proof.
    unfold rt_setter, rt_accessor, getter, setter. rewrite Z.eqb_refl.
    assert (Hn : PrimFloat.is_nan ((nan + o) * s)%float = true).
    { rewrite is_nan_equiv, mul_equiv, add_equiv.
      replace (Prim2B nan) with (B754_nan (prec:=prec) (emax:=emax)) by (symmetry; apply B2SF_inj; reflexivity).
      destruct (Prim2B o); destruct (Prim2B s); reflexivity. }
    unfold setter_guard. rewrite Hn. reflexivity.
  Qed.

  Theorem kind_round_32 (k : rkind) (mu : conv_mode) (x : Z) : in_range bt x -> (x <= bt_invalid bt)%Z -> rt_kind k mu Round bt s o x = x.
  Proof.
    intros Hr Hle. destruct k; cbn [rt_kind].
    - apply helper_round_32; exact Hr.
    - rewrite slice_as_helper by exact Hsc. apply helper_round_32; exact Hr.
    - destruct (Z.eq_dec x (bt_invalid bt)) as [->|Hne]; [apply setter_nan_32|].
      rewrite setter_as_helper by assumption. rewrite guard_32 by (try assumption; lia). apply helper_round_32; exact Hr.
  Qed.
End Bits32.
