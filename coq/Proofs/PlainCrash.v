(* C11, crash clause for a destination that is only ever appended to (a plain io.Writer: no Seek, no WriteAt), under ANY
   fault plan and any write-buffer size: what the destination holds after Encode calls on a chain -- whether they succeeded,
   failed half way through a Write, or bufio kept bytes back -- is a prefix of the concatenated sequences; and the integrity
   rules accept a prefix of a chain of valid sequences only at a boundary between completed sequences. *)
From Coq Require Import NArith ZArith List Lia Bool ZifyN ZifyNat ZifyBool.
Import ListNotations.
From Fit Require Import Model.Writer Model.Wire Proofs.WriterProofs Proofs.WriterFaultProofs Proofs.IntegrityProofs.
Open Scope N_scope.

Definition is_prefix (a b : bytes) : Prop := exists t, b = a ++ t.
Lemma is_prefix_refl a : is_prefix a a. Proof. exists []. now rewrite app_nil_r. Qed.
Lemma is_prefix_trans a b c : is_prefix a b -> is_prefix b c -> is_prefix a c.
Proof. intros [t ->] [u ->]. exists (t ++ u). now rewrite app_assoc. Qed.
Lemma is_prefix_app a t : is_prefix a (a ++ t). Proof. now exists t. Qed.
Lemma is_prefix_app_r a b t : is_prefix a b -> is_prefix a (b ++ t).
Proof. intros [u ->]. exists (u ++ t). now rewrite app_assoc. Qed.
Lemma is_prefix_cong p a b : is_prefix a b -> is_prefix (p ++ a) (p ++ b).
Proof. intros [t ->]. exists t. now rewrite app_assoc. Qed.

(* append-only destination; what has been handed to the writer so far *)
Definition aoc (w : wst) : Prop := d_cur (w_dest w) = len (d_bytes (w_dest w)).
Definition ao (w : wst) : Prop := aoc w /\ (w_size w = 0 -> w_buf w = []).
Definition pview (w : wst) : bytes := d_bytes (w_dest w) ++ w_buf w.
Definition same_ks (w w' : wst) : Prop := w_kind w' = w_kind w /\ w_size w' = w_size w.

Lemma take_drop' {A} n (l : list A) : take n l ++ drop n l = l.
Proof. unfold take, drop. apply firstn_skipn. Qed.

Lemma u_write_ao d p n f d' : d_cur d = len (d_bytes d) -> u_write d p = (n, f, d') ->
  d_cur d' = len (d_bytes d') /\ d_bytes d' = d_bytes d ++ take n p /\ n <= len p /\ (f = false -> n = len p).
Proof.
  intros Hc. unfold u_write. rewrite Hc. destruct (fails d) as [a|]; intros H; injection H as <- <- <-; cbn [d_cur d_bytes].
  - rewrite put_at_end. rewrite len_app'', len_take by lia. split; [lia|]. split; [reflexivity|]. split; [lia|discriminate].
  - rewrite put_at_end. rewrite len_app''. unfold take. rewrite firstn_all2 by (unfold len; lia). split; [reflexivity|]. split; [reflexivity|]. split; [lia|reflexivity].
Qed.

Lemma b_flush_ao w e w' : aoc w -> b_flush w = (e, w') ->
  aoc w' /\ pview w' = pview w /\ same_ks w w' /\ is_prefix (d_bytes (w_dest w)) (d_bytes (w_dest w')).
Proof.
  intros Hc. unfold b_flush. destruct (w_err w).
  - intros H; injection H as <- <-. split; [exact Hc|]. split; [reflexivity|]. split; [split; reflexivity|apply is_prefix_refl].
  - destruct (w_buf w) as [|x buf] eqn:Eb.
    + intros H; injection H as <- <-. split; [exact Hc|]. split; [reflexivity|]. split; [split; reflexivity|apply is_prefix_refl].
    + destruct (u_write (w_dest w) (x :: buf)) as [[n f] d] eqn:Eu.
      destruct (u_write_ao _ _ _ _ _ Hc Eu) as (Hc' & Hb & Hn & Hf).
      destruct f; intros H; injection H as <- <-; unfold aoc, pview, same_ks; cbn [set_buf w_dest w_buf w_kind w_size].
      * split; [exact Hc'|]. rewrite Hb, Eb, <- app_assoc, take_drop'. split; [reflexivity|]. split; [split; reflexivity|apply is_prefix_app].
      * split; [exact Hc'|]. rewrite Hb, Eb, app_nil_r, (Hf eq_refl). unfold take. rewrite firstn_all2 by (unfold len; lia).
        split; [reflexivity|]. split; [split; reflexivity|apply is_prefix_app].
Qed.

Lemma same_ks_refl w : same_ks w w. Proof. split; reflexivity. Qed.
Lemma same_ks_trans a b c : same_ks a b -> same_ks b c -> same_ks a c.
Proof. intros [H1 H2] [H3 H4]. split; congruence. Qed.

Definition grows (e : bool) (w w' : wst) (p : bytes) : Prop :=
  aoc w' /\ same_ks w w' /\ is_prefix (pview w) (pview w') /\ is_prefix (pview w') (pview w ++ p) /\ (e = false -> pview w' = pview w ++ p).

Lemma b_write_loop_ao : forall fuel w p nn n e w', aoc w -> b_write_loop fuel w p nn = (n, e, w') -> grows e w w' p.
Proof.
  assert (Triv : forall w p, aoc w -> grows true w w p).
  { intros w p Hc. split; [exact Hc|]. split; [apply same_ks_refl|]. split; [apply is_prefix_refl|]. split; [apply is_prefix_app|discriminate]. }
  assert (Last : forall w p, aoc w -> grows false w (set_buf w (w_buf w ++ p) false (w_dest w)) p).
  { intros w p Hc. unfold grows, aoc, pview, same_ks. cbn [set_buf w_dest w_buf w_kind w_size]. split; [exact Hc|]. split; [split; reflexivity|].
    rewrite app_assoc. split; [apply is_prefix_app|]. split; [apply is_prefix_refl|reflexivity]. }
  induction fuel as [|fuel IH]; intros w p nn n e w' Hc; cbn [b_write_loop].
  - destruct ((w_size w - len (w_buf w) <? len p) && negb (w_err w)).
    + intros H; injection H as <- <- <-. apply Triv, Hc.
    + destruct (w_err w); intros H; injection H as <- <- <-; [apply Triv, Hc|apply Last, Hc].
  - destruct ((w_size w - len (w_buf w) <? len p) && negb (w_err w)).
    2: { destruct (w_err w); intros H; injection H as <- <- <-; [apply Triv, Hc|apply Last, Hc]. }
    destruct (w_buf w) as [|x buf] eqn:Eb.
    + destruct (u_write (w_dest w) p) as [[k f] d] eqn:Eu.
      destruct (u_write_ao _ _ _ _ _ Hc Eu) as (Hc' & Hb & Hn & Hf).
      intros H. set (w2 := set_buf w [] f d) in *.
      assert (Hc2 : aoc w2) by exact Hc'.
      destruct (IH w2 (drop k p) (nn + k) n e w' Hc2 H) as (A & B & C & D & E).
      assert (Ev : pview w2 = pview w ++ take k p).
      { unfold pview, w2. cbn [set_buf w_dest w_buf]. rewrite Hb, Eb, !app_nil_r. reflexivity. }
      split; [exact A|]. split; [eapply same_ks_trans; [|exact B]; split; reflexivity|].
      split; [eapply is_prefix_trans; [|exact C]; rewrite Ev; apply is_prefix_app|].
      split; [eapply is_prefix_trans; [exact D|]; rewrite Ev, <- app_assoc, take_drop'; apply is_prefix_refl|].
      intros He. rewrite (E He), Ev, <- app_assoc, take_drop'. reflexivity.
    + set (avail := w_size w - len (x :: buf)) in *.
      set (w1 := set_buf w ((x :: buf) ++ take avail p) (w_err w) (w_dest w)).
      destruct (b_flush w1) as [e1 w2] eqn:Ef.
      assert (Hc1 : aoc w1) by exact Hc.
      destruct (b_flush_ao w1 e1 w2 Hc1 Ef) as (Hc2 & Hv & Hks & _).
      intros H. destruct (IH w2 (drop avail p) (nn + avail) n e w' Hc2 H) as (A & B & C & D & E).
      assert (Ev : pview w2 = pview w ++ take avail p).
      { rewrite Hv. unfold pview, w1. cbn [set_buf w_dest w_buf]. rewrite Eb, app_assoc. reflexivity. }
      split; [exact A|]. split; [eapply same_ks_trans; [|exact B]; eapply same_ks_trans; [|exact Hks]; split; reflexivity|].
      split; [eapply is_prefix_trans; [|exact C]; rewrite Ev; apply is_prefix_app|].
      split; [eapply is_prefix_trans; [exact D|]; rewrite Ev, <- app_assoc, take_drop'; apply is_prefix_refl|].
      intros He. rewrite (E He), Ev, <- app_assoc, take_drop'. reflexivity.
Qed.

(* e.w.Write and Flush on an append-only writer *)
Lemma ew_write_ao w p n e w' : ao w -> ew_write w p = (n, e, w') -> ao w' /\ grows e w w' p.
Proof.
  intros [Hc Hu]. unfold ew_write. destruct (w_size w =? 0) eqn:Ez.
  - apply N.eqb_eq in Ez. specialize (Hu Ez).
    destruct (u_write (w_dest w) p) as [[k f] d] eqn:Eu. destruct (u_write_ao _ _ _ _ _ Hc Eu) as (Hc' & Hb & Hn & Hf).
    intros H; injection H as <- <- <-.
    assert (A : aoc (set_dest w d)) by exact Hc'.
    split; [split; [exact A|intros _; exact Hu]|]. split; [exact A|]. split; [split; reflexivity|].
    unfold pview. cbn [set_dest w_dest w_buf]. rewrite Hu, Hb, !app_nil_r.
    split; [apply is_prefix_app|]. split; [apply is_prefix_cong; exists (drop k p); now rewrite take_drop'|].
    intros He. rewrite (Hf He). unfold take. rewrite firstn_all2 by (unfold len; lia). reflexivity.
  - intros H. pose proof (b_write_loop_ao _ _ _ _ _ _ _ Hc H) as G. split; [|exact G].
    destruct G as (A & [_ B] & _). split; [exact A|]. intros Hz. rewrite B in Hz. apply N.eqb_neq in Ez. contradiction.
Qed.

Lemma ew_flush_ao w e w' : ao w -> ew_flush w = (e, w') -> ao w' /\ grows e w w' [].
Proof.
  intros [Hc Hu]. unfold ew_flush. destruct (w_size w =? 0) eqn:Ez.
  - intros H; injection H as <- <-. split; [split; assumption|]. split; [exact Hc|]. split; [apply same_ks_refl|]. split; [apply is_prefix_refl|].
    rewrite app_nil_r. split; [apply is_prefix_refl|reflexivity].
  - intros H. destruct (b_flush_ao w e w' Hc H) as (A & B & [K1 K2] & _). split.
    + split; [exact A|]. intros Hz. rewrite K2 in Hz. apply N.eqb_neq in Ez. contradiction.
    + split; [exact A|]. split; [split; assumption|]. rewrite B, app_nil_r. split; [apply is_prefix_refl|]. split; [apply is_prefix_refl|reflexivity].
Qed.

Lemma pview_set_n w a b : pview (set_n w a b) = pview w. Proof. reflexivity. Qed.
Lemma ao_set_n w a b : ao (set_n w a b) <-> ao w. Proof. split; intros H; exact H. Qed.

Lemma grows_seq e w1 w2 w3 p q : grows false w1 w2 p -> grows e w2 w3 q -> grows e w1 w3 (p ++ q).
Proof.
  intros (A & B & C & D & E) (A' & B' & C' & D' & E'). specialize (E eq_refl).
  split; [exact A'|]. split; [eapply same_ks_trans; eassumption|].
  split; [eapply is_prefix_trans; eassumption|].
  rewrite app_assoc, <- E. split; [exact D'|exact E'].
Qed.
Lemma grows_fail w w' p q : grows true w w' p -> grows true w w' (p ++ q).
Proof.
  intros (A & B & C & D & _). split; [exact A|]. split; [exact B|]. split; [exact C|]. split; [|discriminate].
  rewrite app_assoc. apply is_prefix_app_r, D.
Qed.
Lemma grows_any e w w' p : grows e w w' p -> grows true w w' p.
Proof. intros (A & B & C & D & _). repeat (split; try assumption). discriminate. Qed.

Lemma e_write_ao w p e w' : ao w -> e_write w p = (e, w') -> ao w' /\ grows e w w' p.
Proof.
  intros Hao. unfold e_write. destruct (ew_write w p) as [[n f] w1] eqn:Ew. intros H; injection H as <- <-.
  destruct (ew_write_ao _ _ _ _ _ Hao Ew) as [A G]. split; [exact A|exact G].
Qed.

Lemma e_writes_ao : forall ps w e w', ao w -> e_writes w ps = (e, w') -> ao w' /\ grows e w w' (concat ps).
Proof.
  induction ps as [|p ps IH]; intros w e w' Hao; cbn [e_writes concat].
  - intros H; injection H as <- <-. split; [exact Hao|]. destruct Hao as [Hc _].
    split; [exact Hc|]. split; [apply same_ks_refl|]. split; [apply is_prefix_refl|]. rewrite app_nil_r. split; [apply is_prefix_refl|reflexivity].
  - destruct (e_write w p) as [f w1] eqn:E1. destruct (e_write_ao _ _ _ _ Hao E1) as [A1 G1]. destruct f.
    + intros H; injection H as <- <-. split; [exact A1|apply grows_fail, G1].
    + intros H. destruct (IH _ _ _ A1 H) as [A2 G2]. split; [exact A2|eapply grows_seq; eassumption].
Qed.

(* Encode on a plain writer: the final header, the records, the CRC, then Flush *)
Lemma encode_one_plain w p ds e w' : ao w -> w_kind w = KPlain -> encode_one w p ds = (e, w') ->
  ao w' /\ w_kind w' = KPlain /\ grows e w w' (sequence_bytes p).
Proof.
  intros Hao Hk. unfold encode_one.
  assert (Hd : (ew_seeker (set_n w (w_n w) (w_n w)) || ew_writerat (set_n w (w_n w) (w_n w)) = false)%bool).
  { unfold ew_seeker, ew_writerat. cbn [set_n w_kind w_size]. rewrite Hk. cbn. destruct (w_size w =? 0); reflexivity. }
  rewrite Hd.
  destruct (e_writes (set_n w (w_n w) (w_n w)) (p_hfinal p :: p_chunks p ++ [p_crc p])) as [f w1] eqn:E1.
  destruct (e_writes_ao _ (set_n w (w_n w) (w_n w)) _ _ (proj2 (ao_set_n w _ _) Hao) E1) as [A1 G1].
  change (grows f w w1 (concat (p_hfinal p :: p_chunks p ++ [p_crc p]))) in G1.
  assert (Hc : concat (p_hfinal p :: p_chunks p ++ [p_crc p]) = sequence_bytes p).
  { unfold sequence_bytes. cbn [concat]. rewrite concat_app. cbn [concat]. now rewrite app_nil_r. }
  rewrite Hc in G1.
  assert (K1 : w_kind w1 = KPlain). { destruct G1 as (_ & [K _] & _). rewrite K. exact Hk. }
  destruct f.
  - intros H; injection H as <- <-. split; [exact A1|]. split; [exact K1|exact G1].
  - intros H. destruct (ew_flush_ao _ _ _ A1 H) as [A2 G2]. split; [exact A2|]. split.
    + destruct G2 as (_ & [K _] & _). rewrite K. exact K1.
    + rewrite <- (app_nil_r (sequence_bytes p)). eapply grows_seq; eassumption.
Qed.

Lemma encode_chain_plain : forall ps w acc errs w', ao w -> w_kind w = KPlain -> encode_chain w ps acc = (errs, w') ->
  ao w' /\ is_prefix (pview w) (pview w') /\ is_prefix (pview w') (pview w ++ concat (map (fun x => sequence_bytes (fst x)) ps)).
Proof.
  induction ps as [|[p ds] ps IH]; intros w acc errs w' Hao Hk; cbn [encode_chain map concat fst].
  - intros H; injection H as <- <-. split; [exact Hao|]. split; [apply is_prefix_refl|]. rewrite app_nil_r. apply is_prefix_refl.
  - destruct (encode_one w p ds) as [f w1] eqn:E1. destruct (encode_one_plain _ _ _ _ _ Hao Hk E1) as (A1 & K1 & G1). destruct f.
    + intros H; injection H as <- <-. destruct G1 as (_ & _ & C & D & _). split; [exact A1|]. split; [exact C|].
      rewrite app_assoc. apply is_prefix_app_r, D.
    + intros H. destruct (IH _ _ _ _ A1 K1 H) as (A2 & C2 & D2). destruct G1 as (_ & _ & C & D & E). specialize (E eq_refl).
      split; [exact A2|]. split; [eapply is_prefix_trans; eassumption|]. rewrite app_assoc, <- E. exact D2.
Qed.

(* what a plain destination holds, after any chain of Encode calls under any fault plan, is a prefix of earlier content + sequences *)
Theorem plain_destination_holds_a_prefix size pre f (ps : list (eparts * N)) errs w' :
  encode_chain (wst_new KPlain size pre f) ps [] = (errs, w') ->
  is_prefix (d_bytes (w_dest w')) (pre ++ concat (map (fun x => sequence_bytes (fst x)) ps)).
Proof.
  intros H.
  assert (Hao : ao (wst_new KPlain size pre f)). { split; [reflexivity|]. intros _. reflexivity. }
  destruct (encode_chain_plain _ _ _ _ _ Hao eq_refl H) as (_ & _ & D).
  unfold pview in D at 2. cbn [wst_new w_dest w_buf dest_new d_bytes] in D. rewrite app_nil_r in D.
  eapply is_prefix_trans; [|exact D]. unfold pview. apply is_prefix_app.
Qed.

(* ---- the integrity rules on a prefix of a chain of valid sequences: accepted only at a boundary *)
Lemma prefix_split {A} (x a b : list A) : (exists t, a ++ b = x ++ t) ->
  (exists k, (k < length a)%nat /\ x = firstn k a) \/ (exists x', x = a ++ x' /\ exists t, b = x' ++ t).
Proof.
  intros [t H]. destruct (Nat.lt_ge_cases (length x) (length a)) as [Hlt | Hge].
  - left. exists (length x). split; [exact Hlt|].
    apply (f_equal (firstn (length x))) in H. rewrite firstn_app in H.
    replace (length x - length a)%nat with 0%nat in H by lia. cbn [firstn] in H. rewrite app_nil_r in H.
    rewrite H, firstn_app, Nat.sub_diag, firstn_all. cbn [firstn]. now rewrite app_nil_r.
  - right. exists (skipn (length a) x). split.
    + pose proof (f_equal (firstn (length a)) H) as H1. rewrite firstn_app, Nat.sub_diag, firstn_all in H1. cbn [firstn] in H1. rewrite app_nil_r in H1.
      rewrite firstn_app in H1. replace (length a - length x)%nat with 0%nat in H1 by lia. cbn [firstn] in H1. rewrite app_nil_r in H1.
      rewrite H1 at 1. apply eq_sym, firstn_skipn.
    + exists t. pose proof (f_equal (skipn (length a)) H) as H2. rewrite skipn_app, Nat.sub_diag, skipn_all in H2. cbn [skipn app] in H2.
      rewrite skipn_app in H2. replace (length a - length x)%nat with 0%nat in H2 by lia. cbn [skipn] in H2. exact H2.
Qed.

Lemma chain_prefix_verdict : forall seqs, Forall (fun s => integrity_sequence s = Some [] /\ s <> []) seqs ->
  forall x fuel count n, is_prefix x (concat seqs) -> (length x < fuel)%nat ->
  integrity fuel x count = (n, true) ->
  exists j, n = count + N.of_nat j /\ (j <= length seqs)%nat /\ x = concat (firstn j seqs) /\ n <> 0.
Proof.
  assert (Empty : forall fuel count n, (0 < fuel)%nat -> integrity fuel [] count = (n, true) -> n = count /\ n <> 0).
  { intros fuel count n Hf. destruct fuel as [|f]; [lia|]. cbn. intros H; injection H as <- H. split; [reflexivity|].
    destruct (N.eqb_spec count 0); [discriminate|assumption]. }
  induction seqs as [|s rest IH]; intros HF x fuel count n Hp Hfuel H.
  - destruct Hp as [t Ht]. cbn [concat] in Ht. apply eq_sym, app_eq_nil in Ht. destruct Ht as [-> _].
    assert (Hf0 : (0 < fuel)%nat) by (cbn [length] in Hfuel; lia).
    destruct (Empty fuel count n Hf0 H) as [-> Hn]. exists 0%nat. cbn. repeat split; try lia; try exact Hn.
  - inversion HF as [|? ? [Hs Hne] HF']; subst. cbn [concat] in Hp.
    destruct (prefix_split x s (concat rest)) as [(k & Hk & ->) | (x' & -> & Hp')]; [destruct Hp as [t Ht]; exists t; exact Ht| |].
    + destruct (firstn k s) as [|y ys] eqn:Ex.
      * assert (Hf0 : (0 < fuel)%nat) by (cbn [length] in Hfuel; lia).
        destruct (Empty fuel count n Hf0 H) as [-> Hn]. exists 0%nat. cbn. repeat split; try lia; try exact Hn.
      * exfalso. destruct fuel as [|f]; [cbn in H; discriminate|]. cbn [integrity integrity_gen] in H. unfold integrity in H. cbn [integrity_gen] in H.
        rewrite <- Ex in H. fold integrity_sequence in H. rewrite (truncation_rejected s k Hs Hk) in H. discriminate.
    + destruct fuel as [|f]; [cbn in H; discriminate|]. unfold integrity in H. cbn [integrity_gen] in H.
      assert (Hl : (length x' < f)%nat). { rewrite app_length in Hfuel. destruct s; [contradiction|]. cbn [length] in Hfuel. lia. }
      destruct (s ++ x') as [|y ys] eqn:Ex; [apply app_eq_nil in Ex; destruct Ex; contradiction|]. rewrite <- Ex in H.
      fold integrity_sequence in H. rewrite (append_reads_suffix s x' Hs) in H. fold integrity in H.
      destruct (IH HF' x' f (count + 1) n Hp' Hl H) as (j & -> & Hj & -> & Hn).
      exists (S j). cbn [firstn concat length]. repeat split; try lia; try exact Hn. now rewrite Ex.
Qed.

(* ---- together: a plain destination after ANY fault holds a prefix of the chain, and the integrity rules accept it only
   when it is exactly the first j >= 1 completed sequences *)
From Fit Require Import Proofs.AcceptProofs.

Definition good_output c (f : efile) (r : eresult) : Prop :=
  encode_fit c f = Ok r /\ (ef_hsize f =? 12) = false /\ bytes_ok (er_bytes r) /\ 16 < len (er_bytes r) < 2 ^ 32.

Lemma parts_bytes_of_results c : forall fs rs (ps : list (eparts * N)),
  Forall2 (fun f r => encode_fit c f = Ok r) fs rs -> Forall2 (fun f x => encode_parts c f = Ok (fst x)) fs ps ->
  map (fun x => sequence_bytes (fst x)) ps = map er_bytes rs.
Proof.
  induction fs as [|f fs IH]; intros rs ps H1 H2; inversion H1; inversion H2; subst; [reflexivity|].
  cbn [map]. f_equal; [|apply IH; assumption].
  pose proof (parts_are_fit c f) as H.
  match goal with Ha : encode_parts c f = Ok _, Hb : encode_fit c f = Ok _ |- _ => rewrite Ha, Hb in H end. exact H.
Qed.

Theorem plain_crash_accepted_only_at_boundary c size flt fs rs (ps : list (eparts * N)) errs w' n :
  Forall2 (good_output c) fs rs ->
  Forall2 (fun f x => encode_parts c f = Ok (fst x)) fs ps ->
  encode_chain (wst_new KPlain size [] flt) ps [] = (errs, w') ->
  is_prefix (d_bytes (w_dest w')) (concat (map er_bytes rs)) /\
  (integrity_b (d_bytes (w_dest w')) = (n, true) ->
     exists j, n = N.of_nat j /\ (0 < j <= length rs)%nat /\ d_bytes (w_dest w') = concat (map er_bytes (firstn j rs))).
Proof.
  intros Hg Hp Henc.
  assert (H1 : Forall2 (fun f r => encode_fit c f = Ok r) fs rs).
  { clear -Hg. induction Hg as [|f r fs rs [H _] _ IH]; constructor; assumption. }
  pose proof (plain_destination_holds_a_prefix size [] flt ps errs w' Henc) as Hpre. cbn [app] in Hpre.
  rewrite (parts_bytes_of_results c fs rs ps H1 Hp) in Hpre. split; [exact Hpre|].
  intros Hv. unfold integrity_b in Hv.
  assert (HF : Forall (fun s => integrity_sequence s = Some [] /\ s <> []) (map er_bytes rs)).
  { clear -Hg. induction Hg as [|f r fs rs (He & H12 & Hok & Hlen) _ IH]; cbn [map]; constructor; [|exact IH]. split.
    - eapply encode_fit_accepted; eassumption.
    - intros E. rewrite E in Hlen. cbn in Hlen. lia. }
  destruct (chain_prefix_verdict _ HF _ _ 0 n Hpre (Nat.lt_succ_diag_r _) Hv) as (j & Hn & Hj & Hx & Hn0).
  exists j. rewrite map_length in Hj. split; [lia|]. split; [lia|]. rewrite Hx, firstn_map. reflexivity.
Qed.
