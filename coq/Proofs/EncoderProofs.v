(* C02 (part): the encoder's running data size and running CRC are the size and the CRC of the record bytes it
   produced; the sequence is header ++ records ++ crc with the header carrying that size. *)
From Coq Require Import NArith ZArith List Lia Bool ZifyN ZifyNat ZifyBool.
Import ListNotations.
From Fit Require Import Model.Encoder Proofs.CrcProofs Proofs.ValueProofs.
Open Scope N_scope.

Lemma write_app s a b : write s (a ++ b) = write (write s a) b.
Proof. apply C18_split. Qed.

Lemma encode_message_acc c st m b st' : encode_message c st m = Ok (b, st') ->
  es_datasize st' = wrap 32 (es_datasize st + len b) /\ es_crc st' = write (es_crc st) b.
Proof.
  unfold encode_message, encode_message_chunks, bind.
  destruct (if e_compressed c then compress_timestamp (es_tsref st) (es_lastts st) m else (None, es_tsref st, es_lastts st)) as [[cmp tsref] lastts].
  destruct (match cmp with Some (h, fs) => (h, fs, true) | None => (MesgNormalHeaderMask, m_fields m, false) end) as [[hdr fs] compressed].
  destruct (lru_put _ _) as [[local isnew] lru'].
  destruct (marshal_message _ _) as [mb|]; [|discriminate].
  intros H. injection H as <- <-. cbn [fst snd es_datasize es_crc].
  rewrite concat_app. cbn [concat]. rewrite app_nil_r. split; reflexivity.
Qed.

Lemma wrap_add w a b : wrap w (wrap w a + b) = wrap w (a + b).
Proof. unfold wrap. rewrite N.add_mod_idemp_l by (apply N.pow_nonzero; discriminate). reflexivity. Qed.

(* the data size is counted modulo 2^32 (uint32); state it on the wrapped value *)
Theorem encode_messages_acc c : forall ms st acc out st', encode_messages c st ms acc = Ok (out, st') ->
  exists x, out = acc ++ x /\ wrap 32 (es_datasize st') = wrap 32 (es_datasize st + len x) /\ es_crc st' = write (es_crc st) x.
Proof.
  induction ms as [|m ms IH]; intros st acc out st' H; cbn [encode_messages] in H.
  - injection H as <- <-. exists []. rewrite app_nil_r. unfold len. cbn [length N.of_nat]. rewrite N.add_0_r. auto.
  - unfold bind in H. destruct (encode_message c st m) as [[b st1]| | |] eqn:E; try discriminate.
    destruct (IH _ _ _ _ H) as (x & -> & Hs & Hc). destruct (encode_message_acc _ _ _ _ _ E) as [Hs1 Hc1].
    exists (b ++ x). rewrite app_assoc. split; [reflexivity|]. split.
    + rewrite Hs, Hs1, wrap_add, len_app. f_equal. lia.
    + rewrite Hc, Hc1, write_app. reflexivity.
Qed.

#[local] Opaque write le_bytes.


(* a successful sequence is header ++ records ++ CRC(records), the header carries the record length (mod 2^32),
   and the values written back into the caller's FIT are the ones on the wire *)
Theorem encode_fit_shape c f r : encode_fit c f = Ok r ->
  exists hb records, er_bytes r = hb ++ records ++ le_bytes 2 (er_crc r)
    /\ er_crc r = write 0 records
    /\ (let '(hsize, ver, pv, dsize, hcrc) := er_header r in
        len hb = hsize /\ (hsize = 12 \/ hsize = 14) /\ wrap 32 dsize = wrap 32 (len records)
        /\ firstn 12 hb = hsize :: ver :: le_bytes 2 pv ++ le_bytes 4 dsize ++ DataTypeFIT
        /\ (hsize = 14 -> skipn 12 hb = le_bytes 2 hcrc /\ hcrc = write 0 (firstn 12 hb))).
Proof.
  unfold encode_fit. destruct (ef_msgs f) as [|m0 ms0] eqn:Em; [discriminate|].
  unfold bind. destruct (proto_validate_all _ _); try discriminate.
  destruct (validate_all _ _ _ _) as [vms| | |]; try discriminate.
  destruct (encode_messages _ _ _ _) as [[records st]| | |] eqn:E; try discriminate.
  intros H. injection H as <-. cbn [er_bytes er_crc er_header].
  destruct (encode_messages_acc _ _ _ _ _ _ E) as (x & Hx & Hs & Hc). cbn [app] in Hx. subst x.
  cbn [es_init es_datasize es_crc] in Hs, Hc. rewrite N.add_0_l in Hs.
  eexists. exists records. split; [reflexivity|]. split; [exact Hc|].
  unfold marshal_header. cbn [N.leb app].
  destruct (ef_hsize f =? 12) eqn:E12.
  - cbn [N.eqb Pos.eqb]. split; [reflexivity|]. split; [left; reflexivity|]. split; [exact Hs|].
    split; [|intros Habs; discriminate Habs].
    change DataTypeFIT with [46; 70; 73; 84]. destruct (le_bytes 2 _) as [|p0 [|p1 [|? ?]]] eqn:E2;
      try (apply (f_equal (@length N)) in E2; rewrite le_bytes_length in E2; cbn in E2; lia).
    destruct (le_bytes 4 _) as [|a4 [|b4 [|c4 [|d4 [|? ?]]]]] eqn:E4;
      try (apply (f_equal (@length N)) in E4; rewrite le_bytes_length in E4; cbn in E4; lia).
    cbn [firstn app]. reflexivity.
  - cbn [N.eqb Pos.eqb]. change DataTypeFIT with [46; 70; 73; 84].
    destruct (le_bytes 2 (if ef_profile f =? 0 then profile_Version else ef_profile f)) as [|p0 [|p1 [|? ?]]] eqn:E2;
      try (apply (f_equal (@length N)) in E2; rewrite le_bytes_length in E2; cbn in E2; lia).
    destruct (le_bytes 4 (es_datasize st)) as [|a4 [|b4 [|c4 [|d4 [|? ?]]]]] eqn:E4;
      try (apply (f_equal (@length N)) in E4; rewrite le_bytes_length in E4; cbn in E4; lia).
    cbn [app]. split.
    + unfold len. cbn [length app]. rewrite ?app_length, ?le_bytes_length. reflexivity.
    + split; [right; reflexivity|]. split; [exact Hs|]. cbn [firstn skipn app]. split; [reflexivity|]. intros _. split; reflexivity.
Qed.

(* ---- a header that carries its own CRC contributes nothing to the running CRC: CRC(header ++ records) = CRC(records) *)
#[local] Transparent write le_bytes.
Lemma own_crc_sweep : forallb (fun s => write s (le_bytes 2 s) =? 0) (Nrange 65536) = true.
Proof. vm_compute. reflexivity. Qed.
Lemma write_own_crc s : s < 65536 -> write s (le_bytes 2 s) = 0.
Proof.
  intros H. pose proof own_crc_sweep as Hs. rewrite forallb_forall in Hs.
  specialize (Hs s (in_Nrange _ _ H)). apply N.eqb_eq. exact Hs.
Qed.
#[local] Opaque write le_bytes.

Theorem crc_header14_transparent h12 records : bytes_ok h12 ->
  write 0 ((h12 ++ le_bytes 2 (write 0 h12)) ++ records) = write 0 records.
Proof.
  intros Hok. rewrite !write_app. rewrite write_own_crc; [reflexivity|].
  apply (C18_state_bounded h12 Hok).
Qed.
