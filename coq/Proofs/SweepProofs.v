(* Proofs/SweepProofs.v -- from a complete sweep (Model/Sweep.v) to forall-statements: a good sweep of a triple
   means that for EVERY raw value of the base type the rounding round trip is exact and the truncating one loses
   at most one unit toward zero, on the helper, slice and accessor routes. *)
From Coq Require Import ZArith NArith List Bool Floats Lia.
Import ListNotations.
From Fit Require Import Model.Float Model.Profile Model.Scale Model.Sweep Proofs.FloatProofs.

Lemma zrange_In (k : nat) (start x : Z) : In x (zrange k start) <-> (start <= x < start + Z.of_nat k)%Z.
Proof.
  revert start. induction k as [|k IH]; intros start; cbn [zrange In].
  - lia.
  - rewrite IH. lia.
Qed.

Lemma raw_range_complete (bt : N) (x : Z) : (0 < bt_bits bt <= 16)%Z -> in_range bt x -> In x (raw_range bt).
Proof.
  intros Hb Hr. unfold raw_range. destruct (Z.leb_spec (bt_bits bt) 16) as [_|H]; [|lia].
  apply zrange_In. rewrite Z2Nat.id by (apply Z.pow_nonneg; lia).
  unfold in_range, in_int_range in Hr.
  assert (Hp : (2 ^ bt_bits bt = 2 * 2 ^ (bt_bits bt - 1))%Z).
  { rewrite <- Z.pow_succ_r by lia. f_equal. lia. }
  destruct (bt_signed bt); lia.
Qed.

Lemma devs_of_in (proj : pt -> Z) (f : Z -> pt) (l : list Z) (x : Z) :
  In x l -> proj (f x) = x \/ In (x, proj (f x)) (devs_of proj (map (fun x => (x, f x)) l)).
Proof.
  intros Hin. destruct (Z.eqb_spec (proj (f x)) x) as [E|E]; [left; exact E|right].
  unfold devs_of. apply in_flat_map. exists (x, f x). split.
  - apply in_map_iff. exists x. split; [reflexivity|exact Hin].
  - cbn [fst snd]. destruct (Z.eqb_spec (proj (f x)) x) as [E'|_]; [contradiction|]. left. reflexivity.
Qed.

Lemma guarded_of_in (inv : Z) (f : Z -> pt) (l : list Z) (x : Z) :
  In x l -> x <> inv -> p_guard (f x) = false \/ In x (guarded_of inv (map (fun x => (x, f x)) l)).
Proof.
  intros Hin Hne. destruct (p_guard (f x)) eqn:G; [right|left; reflexivity].
  unfold guarded_of. apply in_flat_map. exists (x, f x). split.
  - apply in_map_iff. exists x. split; [reflexivity|exact Hin].
  - cbn [fst snd]. rewrite G. destruct (Z.eqb_spec x inv) as [E|_]; [contradiction|]. cbn. left. reflexivity.
Qed.

Lemma znull_nil {A} (l : list A) : znull l = true -> l = [].
Proof. destruct l; [reflexivity|discriminate]. Qed.

(* the other two route shapes in terms of the helper route, on a scaled triple *)
Lemma slice_as_helper (mu m : conv_mode) (bt : N) (s o : float) (x : Z) :
  is_unscaled s o = false -> rt_slice mu m bt s o x = rt_helper m bt s o x.
Proof. intros Hsc. unfold rt_slice, rt_helper, discard_slice, discard_value, discard. rewrite Hsc. reflexivity. Qed.

Lemma setter_as_helper (m : conv_mode) (bt : N) (s o : float) (x : Z) :
  is_unscaled s o = false -> x <> bt_invalid bt ->
  rt_setter m bt s o x = if setter_guard bt (discard (apply x s o) s o) then bt_invalid bt else rt_helper m bt s o x.
Proof.
  intros Hsc Hne. unfold rt_setter, rt_accessor, setter, getter, rt_helper, discard_value, discard.
  destruct (Z.eqb_spec x (bt_invalid bt)) as [E|_]; [contradiction|]. rewrite Hsc. reflexivity.
Qed.

Definition toward_zero (x r : Z) : Prop := r = x \/ (0 <= x /\ r = x - 1)%Z \/ (x < 0 /\ r = x + 1)%Z.

Lemma unit_toward_zero_spec (x r : Z) : unit_toward_zero (x, r) = true -> toward_zero x r.
Proof.
  unfold unit_toward_zero, toward_zero. destruct (Z.leb_spec 0 x) as [Hx|Hx]; intros Hr; apply Z.eqb_eq in Hr; lia.
Qed.

Section GoodSweep.
  Variables (bt sb ob : N).
  Let s := f64_of_bits sb.
  Let o := f64_of_bits ob.
  Hypothesis Hbits : (0 < bt_bits bt <= 16)%Z.
  Hypothesis Hgood : sweep_good (sweep_of (bt, sb, ob)) = true.

  Let Hparts : is_unscaled s o = false /\
               rt_setter Trunc bt s o (bt_invalid bt) = bt_invalid bt /\ rt_setter Round bt s o (bt_invalid bt) = bt_invalid bt /\
               devs_of p_hr (points bt s o) = [] /\ guarded_of (bt_invalid bt) (points bt s o) = [] /\
               forallb unit_toward_zero (devs_of p_ht (points bt s o)) = true.
  Proof.
    unfold sweep_good, sweep_of in Hgood. cbn [sw_scaled sw_inv_ok sw_hr sw_guarded sw_ht] in Hgood.
    fold s o in Hgood.
    rewrite !andb_true_iff in Hgood. destruct Hgood as [[[[H1 [H2a H2b]] H3] H4] H5].
    apply negb_true_iff in H1. apply Z.eqb_eq in H2a, H2b. apply znull_nil in H3, H4.
    repeat split; assumption.
  Qed.

  Lemma good_helper_round (x : Z) : in_range bt x -> rt_helper Round bt s o x = x.
  Proof.
    intros Hr. destruct Hparts as (_ & _ & _ & H3 & _ & _).
    destruct (devs_of_in p_hr (point bt s o) (raw_range bt) x (raw_range_complete bt x Hbits Hr)) as [E|E].
    - exact E.
    - unfold points in H3. rewrite H3 in E. destruct E.
  Qed.

  Lemma good_helper_trunc (x : Z) : in_range bt x -> toward_zero x (rt_helper Trunc bt s o x).
  Proof.
    intros Hr. destruct Hparts as (_ & _ & _ & _ & _ & H5).
    destruct (devs_of_in p_ht (point bt s o) (raw_range bt) x (raw_range_complete bt x Hbits Hr)) as [E|E].
    - left. exact E.
    - apply unit_toward_zero_spec. rewrite forallb_forall in H5. apply H5. exact E.
  Qed.

  Lemma good_guard (x : Z) : in_range bt x -> x <> bt_invalid bt -> setter_guard bt (discard (apply x s o) s o) = false.
  Proof.
    intros Hr Hne. destruct Hparts as (_ & _ & _ & _ & H4 & _).
    destruct (guarded_of_in (bt_invalid bt) (point bt s o) (raw_range bt) x (raw_range_complete bt x Hbits Hr) Hne) as [E|E].
    - exact E.
    - unfold points in H4. rewrite H4 in E. destruct E.
  Qed.

  Lemma good_kind_round (k : rkind) (mu : conv_mode) (x : Z) : in_range bt x -> rt_kind k mu Round bt s o x = x.
  Proof.
    intros Hr. destruct Hparts as (H1 & _ & H2b & _). destruct k; cbn [rt_kind].
    - apply good_helper_round; exact Hr.
    - rewrite slice_as_helper by exact H1. apply good_helper_round; exact Hr.
    - destruct (Z.eq_dec x (bt_invalid bt)) as [->|Hne]; [exact H2b|].
      rewrite setter_as_helper by assumption. rewrite good_guard by assumption. apply good_helper_round; exact Hr.
  Qed.

  Lemma good_kind_trunc (k : rkind) (mu : conv_mode) (x : Z) : in_range bt x -> toward_zero x (rt_kind k mu Trunc bt s o x).
  Proof.
    intros Hr. destruct Hparts as (H1 & H2a & _). destruct k; cbn [rt_kind].
    - apply good_helper_trunc; exact Hr.
    - rewrite slice_as_helper by exact H1. apply good_helper_trunc; exact Hr.
    - destruct (Z.eq_dec x (bt_invalid bt)) as [->|Hne]; [left; exact H2a|].
      rewrite setter_as_helper by assumption. rewrite good_guard by assumption. apply good_helper_trunc; exact Hr.
  Qed.
End GoodSweep.

(* list plumbing for the sharded table *)
Lemma triple_eqb_eq (a b : triple) : triple_eqb a b = true -> a = b.
Proof.
  destruct a as [[a1 a2] a3], b as [[b1 b2] b3]. unfold triple_eqb. rewrite !andb_true_iff, !N.eqb_eq.
  intros [[-> ->] ->]. reflexivity.
Qed.
Lemma triple_mem_In (t : triple) (l : list triple) : triple_mem t l = true -> In t l.
Proof.
  unfold triple_mem. rewrite existsb_exists. intros (y & Hy & E). apply triple_eqb_eq in E. subst. exact Hy.
Qed.

(* a table put together from shards speaks about every triple *)
Lemma table_good_generic (tab : list (triple * sweep)) (shards : list (list (triple * sweep))) (tr : list triple) (K : nat) :
  tab = concat shards -> shards = map (fun i => sweep_shard i K tr) (seq 0 K) ->
  forallb (fun ts => sweep_good (snd ts)) tab = true ->
  forallb (fun t => triple_mem t (map fst tab)) tr = true ->
  forall t, In t tr -> sweep_good (sweep_of t) = true.
Proof.
  intros Etab Eshards Hgood Hcov t Hin.
  rewrite forallb_forall in Hcov. specialize (Hcov t Hin).
  apply triple_mem_In in Hcov. apply in_map_iff in Hcov. destruct Hcov as (ts & Ht & Hin').
  rewrite forallb_forall in Hgood. specialize (Hgood ts Hin').
  rewrite Etab, Eshards in Hin'.
  apply in_concat in Hin'. destruct Hin' as (l & Hl & Hin').
  apply in_map_iff in Hl. destruct Hl as (i & El & _). subst l.
  unfold sweep_shard in Hin'. apply in_map_iff in Hin'. destruct Hin' as (t2 & E & _).
  subst ts. cbn [fst snd] in Ht, Hgood. subst t2. exact Hgood.
Qed.
