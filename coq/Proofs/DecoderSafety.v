(* C03 on Model/Decoder.v: for every byte string and every option set, decoding neither panics (every checked index,
   slice, wide read and divisor is in range) nor runs out of fuel (every loop iteration consumes at least one byte). *)
From Coq Require Import NArith ZArith List Lia Bool ZifyN ZifyNat ZifyBool.
Import ListNotations.
From Fit Require Import Model.Decoder.
Open Scope N_scope.

(* [post r Q]: r is neither a panic nor fuel exhaustion, and a successful result satisfies Q *)
Definition post {A} (r : outcome A) (Q : A -> Prop) : Prop :=
  match r with Ok a => Q a | Err _ => True | Panic _ => False | OutOfFuel => False end.
Definition safe {A} (r : outcome A) : Prop := post r (fun _ => True).

Lemma post_bind {A B} (x : outcome A) (f : A -> outcome B) (P : A -> Prop) (Q : B -> Prop) :
  post x P -> (forall a, P a -> post (f a) Q) -> post (bind x f) Q.
Proof. destruct x; cbn; intros Hx Hf; auto. Qed.
Lemma post_weaken {A} (r : outcome A) (P Q : A -> Prop) : post r P -> (forall a, P a -> Q a) -> post r Q.
Proof. destruct r; cbn; auto. Qed.
Lemma post_ok {A} (a : A) (Q : A -> Prop) : Q a -> post (Ok a) Q.
Proof. auto. Qed.
Lemma post_err {A} e (Q : A -> Prop) : post (Err e) Q.
Proof. exact I. Qed.

(* ---- lists *)
Lemma len_nat {A} (l : list A) : N.to_nat (len l) = length l.
Proof. unfold len. apply Nat2N.id. Qed.
Lemma take_length {A} n (l : list A) : n <= len l -> length (take n l) = N.to_nat n.
Proof. unfold take, len. intros H. rewrite firstn_length. lia. Qed.
Lemma drop_length {A} n (l : list A) : length (drop n l) = (length l - N.to_nat n)%nat.
Proof. unfold drop. apply skipn_length. Qed.

Lemma nth_opt_some {A} (l : list A) i : (i < length l)%nat -> exists x, nth_opt l i = Some x.
Proof. revert i. induction l as [|x l IH]; intros i H; cbn in H; [lia|]. destruct i; cbn; [eauto|]. apply IH. lia. Qed.
Lemma byte_at_ok b i (Q : N -> Prop) : (i < length b)%nat -> (forall x, Q x) -> post (byte_at b i) Q.
Proof. intros H HQ. unfold byte_at. destruct (nth_opt_some b i H) as [x ->]. cbn. auto. Qed.
Lemma slice_ok b lo hi (Q : bytes -> Prop) : (lo <= hi)%nat -> (hi <= length b)%nat -> (forall x, length x = (hi - lo)%nat -> Q x) -> post (slice b lo hi) Q.
Proof.
  intros H1 H2 HQ. unfold slice.
  replace (Nat.leb lo hi && Nat.leb hi (length b))%bool with true by (symmetry; apply andb_true_intro; split; apply Nat.leb_le; assumption).
  cbn. apply HQ. rewrite firstn_length, skipn_length. apply Nat.min_l. lia.
Qed.

(* ---- reads: the stream only shrinks, tables and header are untouched, the buffer fill never exceeds the stream *)
Definition buf_ok (s : dstate) : Prop := s_buf s <= len (s_rest s).
Definition tables_kept (s s' : dstate) : Prop := s_defs s' = s_defs s /\ s_header s' = s_header s.
Definition read_post (s : dstate) (n : N) (r : bytes * dstate) : Prop :=
  let '(b, s') := r in
  length b = N.to_nat n /\ (length (s_rest s') + N.to_nat n = length (s_rest s))%nat /\ tables_kept s s' /\ buf_ok s'.

Lemma read_raw_post c s n : buf_ok s -> post (read_raw c s n) (read_post s n).
Proof.
  unfold buf_ok, read_raw. intros Hb.
  destruct (n <=? s_buf s) eqn:E1.
  - cbn. unfold tables_kept, buf_ok. cbn.
    rewrite take_length by lia. unfold len in *. rewrite ?drop_length. repeat split; lia.
  - destruct (n <=? s_buf s + N.min (len (s_rest s) - s_buf s) (c_bufsize c)) eqn:E2; [|exact I].
    cbn. unfold tables_kept, buf_ok. cbn.
    rewrite take_length by lia. unfold len in *. rewrite ?drop_length. repeat split; lia.
Qed.

Lemma read_n_post c s n : buf_ok s -> post (read_n c s n) (read_post s n).
Proof.
  intros Hb. unfold read_n. eapply post_bind; [apply read_raw_post; exact Hb|].
  intros [b s1] (H1 & H2 & [H3 H4] & H5). cbn. unfold tables_kept, buf_ok in *. cbn. repeat split; assumption.
Qed.

(* ---- invariant: buffer fill within the stream, every live definition has valid base types *)
Definition fdefs_valid (l : list fdef) : Prop := Forall (fun fd => bt_valid (fd_base fd) = true) l.
Definition defs_valid (defs : list (option mdef)) : Prop :=
  Forall (fun o => match o with Some d => fdefs_valid (md_fields d) | None => True end) defs.
Definition inv (s : dstate) : Prop := buf_ok s /\ defs_valid (s_defs s).
(* s' comes after s: the stream shrank by at least k bytes *)
Definition after (k : nat) (s s' : dstate) : Prop := (length (s_rest s') + k <= length (s_rest s))%nat.

Lemma after_trans k1 k2 s1 s2 s3 : after k1 s1 s2 -> after k2 s2 s3 -> after (k1 + k2) s1 s3.
Proof. unfold after. lia. Qed.
Lemma after_weaken k k' s s' : (k' <= k)%nat -> after k s s' -> after k' s s'.
Proof. unfold after. lia. Qed.
Lemma after_refl s : after 0 s s.
Proof. unfold after. lia. Qed.

(* state updates that touch neither the stream nor the definitions *)
Definition same_stream (s s' : dstate) : Prop :=
  s_rest s' = s_rest s /\ s_buf s' = s_buf s /\ s_defs s' = s_defs s.
Lemma same_stream_inv s s' : same_stream s s' -> inv s -> inv s'.
Proof. intros (H1 & H2 & H3) [Hb Hd]. unfold inv, buf_ok in *. rewrite H1, H2, H3. auto. Qed.
Lemma same_stream_after s s' : same_stream s s' -> after 0 s s'.
Proof. intros (H1 & _). unfold after. rewrite H1. lia. Qed.
Lemma ss_upd_crc s x : same_stream s (upd_crc s x). Proof. repeat split. Qed.
Lemma ss_upd_time s a b : same_stream s (upd_time s a b). Proof. repeat split. Qed.
Lemma ss_upd_acc s a : same_stream s (upd_acc s a). Proof. repeat split. Qed.
Lemma ss_upd_dev s a b : same_stream s (upd_dev s a b). Proof. repeat split. Qed.
Lemma ss_upd_fileid s a : same_stream s (upd_fileid s a). Proof. repeat split. Qed.
Lemma ss_upd_header s a : same_stream s (upd_header s a). Proof. repeat split. Qed.
Lemma ss_push_msg s a : same_stream s (push_msg s a). Proof. repeat split. Qed.
Lemma ss_push_event s a : same_stream s (push_event s a). Proof. repeat split. Qed.
Lemma ss_refl s : same_stream s s. Proof. repeat split. Qed.
Lemma ss_trans s1 s2 s3 : same_stream s1 s2 -> same_stream s2 s3 -> same_stream s1 s3.
Proof. intros (A1 & A2 & A3) (B1 & B2 & B3). unfold same_stream. rewrite B1, B2, B3. auto. Qed.

Lemma read_inv s n b s' : inv s -> read_post s n (b, s') -> inv s' /\ after (N.to_nat n) s s' /\ length b = N.to_nat n /\ s_header s' = s_header s.
Proof.
  intros [Hb Hd] (H1 & H2 & [H3 H4] & H5). unfold inv, after. rewrite H3. repeat split; auto. lia.
Qed.

(* ---- file header *)
Definition step_post (k : nat) (s : dstate) (s' : dstate) : Prop := inv s' /\ after k s s'.

Lemma decode_file_header_post c s : inv s -> post (decode_file_header c s) (step_post 12 s).
Proof.
  intros Hi. unfold decode_file_header.
  eapply post_bind; [apply read_raw_post; apply Hi|]. intros [b s1] Hr1.
  destruct (read_inv _ _ _ _ Hi Hr1) as (Hi1 & Ha1 & Hl1 & _). cbn in Hl1.
  eapply post_bind; [apply byte_at_ok with (Q := fun _ => True); [lia|auto]|]. intros size _.
  destruct (negb ((size =? 12) || (size =? 14))) eqn:Esz; [exact I|].
  assert (Hsz : size = 12 \/ size = 14) by lia.
  set (s2 := upd_crc s1 (write (s_crc s1) b)).
  assert (Hi2 : inv s2) by (eapply same_stream_inv; [apply ss_upd_crc|exact Hi1]).
  eapply post_bind; [apply read_raw_post; apply Hi2|]. intros [b2 s3] Hr2.
  destruct (read_inv _ _ _ _ Hi2 Hr2) as (Hi3 & Ha3 & Hl3 & _).
  assert (Hlen : (11 <= length b2)%nat) by (destruct Hsz; subst; cbn in Hl3; lia).
  eapply post_bind; [apply slice_ok with (Q := fun _ => True); [lia|lia|auto]|]. intros dt _.
  destruct (negb (list_N_eqb dt DataTypeFIT)); [exact I|].
  eapply post_bind; [apply byte_at_ok with (Q := fun _ => True); [lia|auto]|]. intros b0 _.
  eapply post_bind; [apply slice_ok with (Q := fun _ => True); [lia|lia|auto]|]. intros pv _.
  eapply post_bind; [apply slice_ok with (Q := fun _ => True); [lia|lia|auto]|]. intros ds _.
  destruct (le_word ds =? 0); [exact I|].
  eapply post_bind with (P := fun _ => True).
  { destruct (size =? 14) eqn:E14; [|exact I].
    eapply post_bind; [apply slice_ok with (Q := fun _ => True); [lia| |auto]|intros; exact I].
    assert (size = 14) by lia. subst. cbn in Hl3. lia. }
  intros hcrc _.
  assert (Hfin : forall h x, step_post 12 s (upd_crc (push_event (upd_header s3 h) (EvHeader h)) x)).
  { intros h x. split.
    - eapply same_stream_inv; [|exact Hi3]. eapply ss_trans; [apply ss_upd_header|]. eapply ss_trans; [apply ss_push_event|apply ss_upd_crc].
    - assert (Hs2 : after 0 s1 s2) by (apply same_stream_after, ss_upd_crc).
      pose proof (after_trans _ _ _ _ _ Ha1 Hs2) as H12. pose proof (after_trans _ _ _ _ _ H12 Ha3) as H13.
      assert (Hss : same_stream s3 (upd_crc (push_event (upd_header s3 h) (EvHeader h)) x)).
      { eapply ss_trans; [apply ss_upd_header|]. eapply ss_trans; [apply ss_push_event|apply ss_upd_crc]. }
      pose proof (after_trans _ _ _ _ _ H13 (same_stream_after _ _ Hss)) as H14.
      eapply after_weaken; [|exact H14]. destruct Hsz; subst; cbn; lia. }
  destruct ((hcrc =? 0) || negb (c_checksum c)); [apply Hfin|].
  destruct (negb (_ =? hcrc)); [exact I|apply Hfin].
Qed.

(* ---- message definition *)
Lemma parse_fdefs_post fuel : forall b, post (parse_fdefs fuel b) fdefs_valid.
Proof.
  induction fuel as [|f IH]; intros b; cbn [parse_fdefs]; [constructor|].
  destruct b as [|num [|size [|base r]]]; try constructor.
  destruct (bt_valid base) eqn:Ev; [|exact I].
  eapply post_bind; [apply IH|]. intros rest Hr. cbn. constructor; [exact Ev|exact Hr].
Qed.

Lemma defs_valid_replace defs i d : defs_valid defs -> fdefs_valid (md_fields d) -> defs_valid (replace_nth defs i (Some d)).
Proof.
  unfold defs_valid. revert i. induction defs as [|x defs IH]; intros i Hd Hf; cbn [replace_nth]; [constructor|].
  inversion Hd; subst. destruct i; constructor; auto.
Qed.

Lemma decode_definition_post c s header : inv s -> post (decode_definition c s header) (step_post 5 s).
Proof.
  intros Hi. unfold decode_definition.
  eapply post_bind; [apply read_n_post; apply Hi|]. intros [b s1] Hr1.
  destruct (read_inv _ _ _ _ Hi Hr1) as (Hi1 & Ha1 & Hl1 & _). cbn in Hl1.
  eapply post_bind; [apply byte_at_ok with (Q := fun _ => True); [lia|auto]|]. intros reserved _.
  eapply post_bind; [apply byte_at_ok with (Q := fun _ => True); [lia|auto]|]. intros arch _.
  eapply post_bind; [apply slice_ok with (Q := fun _ => True); [lia|lia|auto]|]. intros mn _.
  eapply post_bind; [apply byte_at_ok with (Q := fun _ => True); [lia|auto]|]. intros n _.
  eapply post_bind; [apply read_n_post; apply Hi1|]. intros [b2 s2] Hr2.
  destruct (read_inv _ _ _ _ Hi1 Hr2) as (Hi2 & Ha2 & _ & _).
  eapply post_bind; [apply parse_fdefs_post|]. intros fds Hfds.
  eapply post_bind with (P := fun r => inv (snd r) /\ after 0 s2 (snd r)).
  { destruct (has header DevDataMask); [|cbn; split; [exact Hi2|apply after_refl]].
    eapply post_bind; [apply read_n_post; apply Hi2|]. intros [b3 s3] Hr3.
    destruct (read_inv _ _ _ _ Hi2 Hr3) as (Hi3 & Ha3 & Hl3 & _). cbn in Hl3.
    eapply post_bind; [apply byte_at_ok with (Q := fun _ => True); [lia|auto]|]. intros n2 _.
    eapply post_bind; [apply read_n_post; apply Hi3|]. intros [b4 s4] Hr4.
    destruct (read_inv _ _ _ _ Hi3 Hr4) as (Hi4 & Ha4 & _ & _). cbn. split; [exact Hi4|].
    eapply after_weaken; [|exact (after_trans _ _ _ _ _ Ha3 Ha4)]. lia. }
  intros [dds s5] [Hi5 Ha5]. cbn [snd] in *. cbn.
  split.
  - destruct Hi5 as [Hb5 Hd5]. split; [exact Hb5|]. cbn. apply defs_valid_replace; [exact Hd5|exact Hfds].
  - unfold after in *. cbn. lia.
Qed.

(* ---- values: a scalar wide read needs as many bytes as the base type is wide *)
Lemma width_matches bt t : bt_ntype bt = Some t -> N.of_nat (width t) = bt_size bt.
Proof.
  unfold bt_ntype.
  repeat match goal with
  | |- (if ?c then _ else _) = _ -> _ =>
      let E := fresh "E" in destruct c eqn:E;
      [ intros H; injection H as <-;
        repeat match goal with
        | H : (_ || _)%bool = true |- _ => apply orb_prop in H; destruct H as [H|H]
        | H : (_ =? _) = true |- _ => apply N.eqb_eq in H; subst bt
        end; vm_compute; reflexivity
      | ]
  end.
  discriminate.
Qed.

Lemma unmarshal_safe big bt pt arr b : (arr = true \/ bt_size bt <= len b) -> safe (unmarshal big bt pt arr b).
Proof.
  intros H. unfold unmarshal, safe. destruct (bt =? bt_string); [exact I|].
  destruct (bt_ntype bt) as [t|] eqn:Et; [|exact I].
  destruct arr; [exact I|].
  destruct H as [H|H]; [discriminate|].
  pose proof (width_matches _ _ Et) as Hw.
  assert (Hw' : width (match t with TU8 => if pt =? pt_Bool then TBool else TU8 | _ => t end) = width t).
  { destruct t; try reflexivity. destruct (pt =? pt_Bool); reflexivity. }
  rewrite Hw'. destruct (Nat.ltb (length b) (width t)) eqn:El; [|exact I].
  apply Nat.ltb_lt in El. unfold len in H. lia.
Qed.

Lemma read_value_post c s size arch base ptype arr ovr : inv s -> (arr = true \/ base = bt_string \/ bt_size base <= size) ->
  post (read_value c s size arch base ptype arr ovr) (fun r => inv (snd r) /\ after (N.to_nat size) s (snd r)).
Proof.
  intros Hi Hpre. unfold read_value.
  eapply post_bind; [apply read_n_post; apply Hi|]. intros [b s1] Hr.
  destruct (read_inv _ _ _ _ Hi Hr) as (Hi1 & Ha1 & Hl1 & _).
  eapply post_bind with (P := fun _ => True).
  - destruct (base =? bt_string) eqn:Es.
    + unfold unmarshal. rewrite Es. exact I.
    + rewrite andb_false_r. apply unmarshal_safe.
      destruct Hpre as [Hp|[Hp|Hp]]; [left; exact Hp|apply N.eqb_neq in Es; contradiction|right; unfold len; lia].
  - intros v _. cbn. auto.
Qed.

(* ---- fields *)
Lemma decode_fields_post c arch mesgnum : forall fds s fs, inv s -> fdefs_valid fds ->
  post (decode_fields c s arch mesgnum fds fs) (fun r => inv (snd r) /\ after 0 s (snd r)).
Proof.
  induction fds as [|fd fds IH]; intros s fs Hi Hv; cbn [decode_fields].
  - cbn. split; [exact Hi|apply after_refl].
  - inversion Hv as [|? ? Hfd Hrest]; subst.
    eapply post_bind with (P := fun _ => True).
    { destruct (f_known (create_field mesgnum (fd_num fd))); [exact I|].
      eapply post_bind with (P := fun _ => True); [|intros; exact I].
      destruct (bt_size (fd_base fd) <? fd_size fd); [|exact I].
      unfold bt_size_div. unfold bt_valid in Hfd. destruct (bt_size (fd_base fd) =? 0) eqn:E0; [lia|exact I]. }
    intros [f ovr] _.
    destruct (fd_size fd =? 0); [apply IH; assumption|].
    destruct (fd_size fd <? bt_size (f_base f)) eqn:Elt.
    + eapply post_bind; [apply read_value_post; [exact Hi|left; reflexivity]|].
      intros [v s1] [Hi1 Ha1]. cbn [snd] in *.
      match goal with |- post (decode_fields c ?s2 _ _ _ _) _ => assert (Hss : same_stream s1 s2) end.
      { destruct (negb (bt_uint8 =? f_base f)).
        - destruct (convert_bytes_to_value _ _ _) as [|[] ?| | |]; try destruct (f_num f =? FieldNumTimestamp);
            destruct (fb_accum (f_fb f) && c_expand c); try apply ss_refl; try apply ss_upd_time; try apply ss_upd_acc;
            (eapply ss_trans; [apply ss_upd_time|apply ss_upd_acc]).
        - destruct v as [|[] ?| | |]; try destruct (f_num f =? FieldNumTimestamp);
            destruct (fb_accum (f_fb f) && c_expand c); try apply ss_refl; try apply ss_upd_time; try apply ss_upd_acc;
            (eapply ss_trans; [apply ss_upd_time|apply ss_upd_acc]). }
      eapply post_weaken; [apply IH; [eapply same_stream_inv; eassumption|exact Hrest]|].
      intros [fs' s'] [Hi' Ha']. cbn [snd] in *. split; [exact Hi'|].
      pose proof (after_trans _ _ _ _ _ Ha1 (same_stream_after _ _ Hss)) as H1. pose proof (after_trans _ _ _ _ _ H1 Ha') as H2.
      eapply after_weaken; [|exact H2]. lia.
    + eapply post_bind; [apply read_value_post; [exact Hi|right; right; lia]|].
      intros [v s1] [Hi1 Ha1]. cbn [snd] in *.
      match goal with |- post (decode_fields c ?s2 _ _ _ _) _ => assert (Hss : same_stream s1 s2) end.
      { destruct (negb (f_base f =? f_base f)).
        - destruct (convert_bytes_to_value _ _ _) as [|[] ?| | |]; try destruct (f_num f =? FieldNumTimestamp);
            destruct (fb_accum (f_fb f) && c_expand c); try apply ss_refl; try apply ss_upd_time; try apply ss_upd_acc;
            (eapply ss_trans; [apply ss_upd_time|apply ss_upd_acc]).
        - destruct v as [|[] ?| | |]; try destruct (f_num f =? FieldNumTimestamp);
            destruct (fb_accum (f_fb f) && c_expand c); try apply ss_refl; try apply ss_upd_time; try apply ss_upd_acc;
            (eapply ss_trans; [apply ss_upd_time|apply ss_upd_acc]). }
      eapply post_weaken; [apply IH; [eapply same_stream_inv; eassumption|exact Hrest]|].
      intros [fs' s'] [Hi' Ha']. cbn [snd] in *. split; [exact Hi'|].
      pose proof (after_trans _ _ _ _ _ Ha1 (same_stream_after _ _ Hss)) as H1. pose proof (after_trans _ _ _ _ _ H1 Ha') as H2.
      eapply after_weaken; [|exact H2]. lia.
Qed.

(* ---- developer fields *)
Lemma decode_dev_fields_post c arch : forall dds s out, inv s ->
  post (decode_dev_fields c s arch dds out) (fun r => inv (snd r) /\ after 0 s (snd r)).
Proof.
  induction dds as [|dd dds IH]; intros s out Hi; cbn [decode_dev_fields].
  - cbn. split; [exact Hi|apply after_refl].
  - destruct (find_fdesc _ _ _) as [fdsc|].
    + destruct (negb (bt_valid (fdx_base fdsc))) eqn:Ev; [exact I|].
      assert (Hpos : 0 < bt_size (fdx_base fdsc)) by (unfold bt_valid in Ev; lia).
      eapply post_bind with (P := fun _ => True).
      { destruct (bt_size (fdx_base fdsc) <? dd_size dd); [|exact I]. unfold bt_size_div.
        destruct (bt_size (fdx_base fdsc) =? 0) eqn:E0; [lia|exact I]. }
      intros dv _. destruct (dd_size dd =? 0); [apply IH; exact Hi|].
      destruct (dd_size dd <? bt_size (fdx_base fdsc)) eqn:Elt.
      * eapply post_bind; [apply read_value_post; [exact Hi|left; reflexivity]|].
        intros [v s1] [Hi1 Ha1]. cbn [snd] in *.
        eapply post_weaken; [apply IH; exact Hi1|]. intros [o s'] [Hi' Ha']. cbn [snd] in *. split; [exact Hi'|].
        eapply after_weaken; [|exact (after_trans _ _ _ _ _ Ha1 Ha')]. lia.
      * eapply post_bind; [apply read_value_post; [exact Hi|right; right; lia]|].
        intros [v s1] [Hi1 Ha1]. cbn [snd] in *.
        eapply post_weaken; [apply IH; exact Hi1|]. intros [o s'] [Hi' Ha']. cbn [snd] in *. split; [exact Hi'|].
        eapply after_weaken; [|exact (after_trans _ _ _ _ _ Ha1 Ha')]. lia.
    + eapply post_bind; [apply read_n_post; apply Hi|]. intros [b s1] Hr.
      destruct (read_inv _ _ _ _ Hi Hr) as (Hi1 & Ha1 & _ & _).
      eapply post_weaken; [apply IH; exact Hi1|]. intros [o s'] [Hi' Ha']. cbn [snd] in *. split; [exact Hi'|].
      eapply after_weaken; [|exact (after_trans _ _ _ _ _ Ha1 Ha')]. lia.
Qed.

(* ---- message data *)
Lemma defs_valid_nth defs i d : defs_valid defs -> nth i defs None = Some d -> fdefs_valid (md_fields d).
Proof.
  unfold defs_valid. intros H. revert i. induction H as [|x l Hx Hl IH]; intros i E; destruct i; cbn in E; try discriminate.
  - subst x. exact Hx.
  - eapply IH; exact E.
Qed.

Lemma decode_data_body_post c s s0 header d fs0 : inv s0 -> same_stream s s0 -> fdefs_valid (md_fields d) ->
  post (decode_data_body c s0 header d fs0) (step_post 0 s).
Proof.
  intros Hi0 Hss0 Hfd. unfold decode_data_body.
  eapply post_bind; [apply decode_fields_post; assumption|].
  intros [fs s1] [Hi1 Ha1]. cbn [snd fst] in *.
  set (r2 := if c_expand c then (fst (expand_all (length fs) 0 (md_num d) fs (s_acc s1)), upd_acc s1 (snd (expand_all (length fs) 0 (md_num d) fs (s_acc s1)))) else (fs, s1)).
  assert (Hss2 : same_stream s1 (snd r2)).
  { unfold r2. destruct (c_expand c); cbn [snd]; [apply ss_upd_acc|apply ss_refl]. }
  set (s2 := snd r2) in *. set (fs1 := fst r2).
  set (s3 := match s_fileid s2 with None => if md_num d =? mesgnum_FileId then upd_fileid s2 (Some (mkmsg header (md_num d) fs1 [])) else s2 | Some _ => s2 end).
  assert (Hss3 : same_stream s2 s3).
  { unfold s3. destruct (s_fileid s2); [apply ss_refl|]. destruct (md_num d =? mesgnum_FileId); [apply ss_upd_fileid|apply ss_refl]. }
  set (s4 := if md_num d =? mesgnum_DeveloperDataId then upd_dev s3 (s_devidx s3 ++ [u8_of (field_value_by_num fs1 fn_DeveloperDataId_DeveloperDataIndex)]) (s_fdescs s3)
             else if md_num d =? mesgnum_FieldDescription then upd_dev s3 (s_devidx s3) (s_fdescs s3 ++ [new_field_description fs1]) else s3).
  assert (Hss4 : same_stream s3 s4).
  { unfold s4. destruct (md_num d =? mesgnum_DeveloperDataId); [apply ss_upd_dev|]. destruct (md_num d =? mesgnum_FieldDescription); [apply ss_upd_dev|apply ss_refl]. }
  assert (Hs14 : same_stream s1 s4) by (eapply ss_trans; [exact Hss2|]; eapply ss_trans; eassumption).
  assert (Hi4 : inv s4) by (eapply same_stream_inv; eassumption).
  eapply post_bind with (P := fun r => inv (snd r) /\ after 0 s4 (snd r)).
  { destruct (md_devs d) as [|dd dds]; [cbn; split; [exact Hi4|apply after_refl]|]. apply decode_dev_fields_post. exact Hi4. }
  intros [devs s5] [Hi5 Ha5]. cbn [snd fst] in *. cbn. split.
  - eapply same_stream_inv; [apply ss_push_msg|exact Hi5].
  - pose proof (after_trans _ _ _ _ _ (same_stream_after _ _ Hss0) Ha1) as H1.
    pose proof (after_trans _ _ _ _ _ H1 (same_stream_after _ _ Hs14)) as H2.
    pose proof (after_trans _ _ _ _ _ H2 Ha5) as H3.
    pose proof (after_trans _ _ _ _ _ H3 (same_stream_after _ _ (ss_push_msg s5 (mkmsg header (md_num d) fs1 devs)))) as H4.
    eapply after_weaken; [|exact H4]. lia.
Qed.

Lemma decode_data_post c s header : inv s -> post (decode_data c s header) (step_post 0 s).
Proof.
  intros Hi. unfold decode_data.
  destruct (nth _ (s_defs s) None) as [d|] eqn:Ed; [|exact I].
  pose proof (defs_valid_nth _ _ _ (proj2 Hi) Ed) as Hfd.
  destruct (has header MesgCompressedHeaderMask); cbv zeta.
  - apply decode_data_body_post; [eapply same_stream_inv; [apply ss_upd_time|exact Hi]|apply ss_upd_time|exact Hfd].
  - apply decode_data_body_post; [exact Hi|apply ss_refl|exact Hfd].
Qed.

(* ---- one record: at least one byte is consumed *)
Lemma decode_message_post c s : inv s -> post (decode_message c s) (step_post 1 s).
Proof.
  intros Hi. unfold decode_message.
  eapply post_bind; [apply read_n_post; apply Hi|]. intros [b s1] Hr.
  destruct (read_inv _ _ _ _ Hi Hr) as (Hi1 & Ha1 & Hl1 & _). cbn in Hl1.
  eapply post_bind; [apply byte_at_ok with (Q := fun _ => True); [lia|auto]|]. intros header _.
  destruct (_ =? MesgDefinitionMask).
  - eapply post_weaken; [apply decode_definition_post; exact Hi1|]. intros s' [Hi' Ha']. split; [exact Hi'|].
    eapply after_weaken; [|exact (after_trans _ _ _ _ _ Ha1 Ha')]. cbn. lia.
  - eapply post_weaken; [apply decode_data_post; exact Hi1|]. intros s' [Hi' Ha']. split; [exact Hi'|].
    eapply after_weaken; [|exact (after_trans _ _ _ _ _ Ha1 Ha')]. cbn. lia.
Qed.

(* ---- the record loop never runs out of fuel: the fuel exceeds the number of bytes left *)
Lemma decode_messages_post c : forall fuel s, inv s -> (length (s_rest s) < fuel)%nat ->
  post (decode_messages fuel c s) (step_post 0 s).
Proof.
  induction fuel as [|f IH]; intros s Hi Hf; [lia|]. cbn [decode_messages].
  destruct (h_datasize (s_header s) <=? s_cur s); [cbn; split; [exact Hi|apply after_refl]|].
  eapply post_bind; [apply decode_message_post; exact Hi|]. intros s1 [Hi1 Ha1].
  eapply post_weaken; [apply IH; [exact Hi1|unfold after in Ha1; lia]|].
  intros s2 [Hi2 Ha2]. split; [exact Hi2|]. eapply after_weaken; [|exact (after_trans _ _ _ _ _ Ha1 Ha2)]. lia.
Qed.

Lemma decode_crc_post c s : inv s -> post (decode_crc c s) (fun r => step_post 2 s (snd r)).
Proof.
  intros Hi. unfold decode_crc.
  eapply post_bind; [apply read_raw_post; apply Hi|]. intros [b s1] Hr.
  destruct (read_inv _ _ _ _ Hi Hr) as (Hi1 & Ha1 & _ & _).
  destruct (c_checksum c && negb (s_crc s1 =? le_word b)); [exact I|]. cbn. split.
  - eapply same_stream_inv; [|exact Hi1]. eapply ss_trans; [apply ss_upd_crc|apply ss_push_event].
  - assert (Hss : same_stream s1 (push_event (upd_crc s1 0) (EvCrc (le_word b)))) by (eapply ss_trans; [apply ss_upd_crc|apply ss_push_event]).
    eapply after_weaken; [|exact (after_trans _ _ _ _ _ Ha1 (same_stream_after _ _ Hss))]. cbn. lia.
Qed.

Lemma reset_seq_inv s : buf_ok s -> inv (reset_seq s).
Proof.
  intros Hb. split; [exact Hb|]. cbn. unfold defs_valid. repeat constructor.
Qed.

(* ---- one sequence: at least 14 bytes are consumed *)
Lemma decode_one_post c s : inv s -> post (decode_one c s) (fun r => step_post 14 s (snd r)).
Proof.
  intros Hi. unfold decode_one.
  eapply post_bind; [apply decode_file_header_post; exact Hi|]. intros s1 [Hi1 Ha1].
  eapply post_bind; [apply decode_messages_post; [exact Hi1|lia]|]. intros s2 [Hi2 Ha2].
  eapply post_bind; [apply decode_crc_post; exact Hi2|]. intros [crc s3] [Hi3 Ha3]. cbn [snd] in *. cbn. split.
  - apply reset_seq_inv. apply Hi3.
  - unfold after in *. cbn. lia.
Qed.

(* ---- the whole (possibly chained) stream *)
Lemma decode_all_safe c : forall fuel s out, inv s -> (length (s_rest s) < fuel)%nat -> safe (fst (decode_all fuel c s out)).
Proof.
  induction fuel as [|f IH]; intros s out Hi Hf; [lia|]. cbn [decode_all].
  assert (Hstep : safe (fst (match decode_one c s with
                             | Ok (ft, s') => decode_all f c s' (ft :: out)
                             | Err e => match out, decode_file_header c s with
                                        | _ :: _, Err e' => if e' =? E_EOF then (Ok (rev out), rev (s_events s)) else (Err e, rev (s_events s))
                                        | _, _ => (Err e, rev (s_events s))
                                        end
                             | Panic p => (Panic p, rev (s_events s))
                             | OutOfFuel => (OutOfFuel, rev (s_events s)) end))).
  { pose proof (decode_one_post c s Hi) as Hp. destruct (decode_one c s) as [[ft s']|e| |]; cbn in Hp; try contradiction.
    - destruct Hp as [Hi' Ha']. apply IH; [exact Hi'|unfold after in Ha'; lia].
    - destruct out; [exact I|]. destruct (decode_file_header c s); try exact I. destruct (_ =? _); exact I. }
  destruct (s_rest s) eqn:Er; [destruct out; [exact Hstep|exact I]|exact Hstep].
Qed.

Lemma init_inv bs : inv (init_state bs).
Proof.
  split; [unfold buf_ok; cbn; lia|]. cbn. unfold defs_valid. repeat constructor.
Qed.

Theorem decode_stream_safe c bs : safe (decode_stream c bs).
Proof. unfold decode_stream. apply decode_all_safe; [apply init_inv|cbn; lia]. Qed.
