(* C11, crash clause, on the integrity rules of Model/Wire.v: as long as the provisional header (data size 0, which is what
   Encode writes first when the caller's header is the default one and the destination can be rewritten) is in place, no
   prefix of the destination content is accepted -- whatever follows the header and under both readings of the file CRC. *)
From Coq Require Import NArith ZArith List Lia Bool ZifyN ZifyNat ZifyBool.
Import ListNotations.
From Fit Require Import Model.Encoder Model.Wire.
Open Scope N_scope.

Lemma zero_datasize_rejected l12 zc q hs : nth_opt q 0 = Some hs ->
  (len q <? hs = false -> le32 (take 4 (drop 4 (take hs q))) = 0) -> integrity_sequence_gen l12 zc q = None.
Proof.
  intros H0 Hz. destruct q as [|x q]; [reflexivity|]. cbn [nth_opt] in H0. injection H0 as ->.
  unfold integrity_sequence_gen.
  destruct (negb _); [reflexivity|]. destruct (len (hs :: q) <? hs) eqn:E; [reflexivity|].
  destruct (negb (beq _ _)); [reflexivity|]. rewrite (Hz eq_refl). reflexivity.
Qed.

#[local] Opaque write.
Theorem provisional_prefix_rejected l12 zc hs ver pv rest k : (hs = 12 \/ hs = 14) ->
  integrity_sequence_gen l12 zc (firstn k (header_bytes hs ver pv 0 ++ rest)) = None.
Proof.
  intros Hhs.
  assert (Hh : exists a b c d tail, header_bytes hs ver pv 0 = hs :: a :: b :: c :: 0 :: 0 :: 0 :: 0 :: d :: tail).
  { unfold header_bytes, marshal_header. cbn [le_bytes app N.leb]. change (0 mod 256) with 0. change (0 / 256) with 0. change (0 mod 256) with 0.
    destruct Hhs as [-> | ->]; cbn [N.eqb Pos.eqb app]; repeat eexists. }
  destruct Hh as (a & b & c & d & tail & ->). cbn [app].
  destruct k as [|k]; [reflexivity|]. cbn [firstn].
  apply zero_datasize_rejected with (hs := hs); [reflexivity|].
  intros Hlen.
  do 7 (destruct k as [|k]; [exfalso; cbn [firstn] in Hlen; unfold len in Hlen; cbn [length] in Hlen; lia|]).
  cbn [firstn].
  assert (Ht : exists t, take hs (hs :: a :: b :: c :: 0 :: 0 :: 0 :: 0 :: firstn k (d :: tail ++ rest)) = hs :: a :: b :: c :: 0 :: 0 :: 0 :: 0 :: t).
  { unfold take. destruct Hhs as [-> | ->]; [change (N.to_nat 12) with 12%nat | change (N.to_nat 14) with 14%nat]; cbn [firstn]; eexists; reflexivity. }
  destruct Ht as (t & ->). unfold drop, take. change (N.to_nat 4) with 4%nat. cbn [skipn firstn]. reflexivity.
Qed.
