(* C02, chained files: what the encoder model writes for a list of files (14-byte headers) is exactly that many well-formed
   sequences of the independent specification (Model/Wire.v) and nothing else -- nothing between and nothing after them. *)
From Coq Require Import NArith ZArith List Lia Bool ZifyN ZifyNat ZifyBool.
Import ListNotations.
From Fit Require Import Model.Encoder Model.Wire Proofs.CrcProofs Proofs.EncoderProofs Proofs.IntegrityProofs Proofs.ValueProofs
  Proofs.AcceptProofs Proofs.GrammarProofs Proofs.WfProofs.
Open Scope N_scope.

#[local] Opaque write.
Theorem sequence_wf_tail (h12 records tail : bytes) segs :
  length h12 = 12%nat -> nth_opt h12 0 = Some 14 -> take 4 (drop 8 h12) = fit_tag ->
  le32 (take 4 (drop 4 h12)) = len records -> bytes_ok h12 -> bytes_ok records ->
  parses (repeat 0 16) (records ++ le_bytes 2 (write 0 records) ++ tail) (len records) segs (le_bytes 2 (write 0 records) ++ tail) ->
  wf_sequence (((h12 ++ le_bytes 2 (write 0 h12)) ++ records ++ le_bytes 2 (write 0 records)) ++ tail)
  = Some ((SHeader, h12 ++ le_bytes 2 (write 0 h12)) :: segs ++ [(SCrc, le_bytes 2 (write 0 records))], tail).
Proof.
  intros Hl H0 Htag Hds Hok Hrok Hp.
  set (hc := le_bytes 2 (write 0 h12)). set (fc := le_bytes 2 (write 0 records)) in *.
  assert (Lh : len (h12 ++ hc) = 14) by (unfold len, hc; rewrite app_length, le_bytes_length, Hl; reflexivity).
  assert (Bh : write 0 h12 < 65536) by (apply (C18_state_bounded h12 Hok)).
  assert (Br : write 0 records < 65536) by (apply (C18_state_bounded records Hrok)).
  unfold wf_sequence, wf_sequence_gen.
  destruct h12 as [|b0 t12]; [discriminate|]. cbn [nth_opt] in H0. injection H0 as ->.
  cbn [app]. change (14 :: ((t12 ++ hc) ++ records ++ fc) ++ tail) with ((((14 :: t12) ++ hc) ++ records ++ fc) ++ tail).
  set (h12 := 14 :: t12) in *. set (bs := ((h12 ++ hc) ++ records ++ fc) ++ tail) in *.
  assert (E1 : bs = (h12 ++ hc) ++ (records ++ fc ++ tail)) by (unfold bs; rewrite <- !app_assoc; reflexivity).
  assert (E2 : bs = ((h12 ++ hc) ++ records) ++ (fc ++ tail)) by (unfold bs; rewrite <- !app_assoc; reflexivity).
  assert (Lall : len bs = 14 + len records + 2 + len tail).
  { assert (Lfc : len fc = 2) by (unfold len, fc; rewrite le_bytes_length; reflexivity).
    rewrite E1. rewrite (len_app (h12 ++ hc)), (len_app records), (len_app fc), Lh, Lfc. lia. }
  change (negb ((14 =? 12) || (14 =? 14))) with false. cbv iota.
  replace (len bs <? 14) with false by (symmetry; apply N.ltb_ge; lia).
  assert (T14 : take 14 bs = h12 ++ hc) by (rewrite E1; apply take_all_app; symmetry; exact Lh).
  rewrite T14.
  assert (T12 : take 12 (h12 ++ hc) = h12) by (apply take_all_app; unfold len; rewrite Hl; reflexivity).
  assert (D12 : drop 12 (h12 ++ hc) = hc) by (apply drop_all_app; unfold len; rewrite Hl; reflexivity).
  assert (D8 : take 4 (drop 8 (h12 ++ hc)) = take 4 (drop 8 h12)).
  { rewrite drop_app_prefix by (unfold len; rewrite Hl; lia). apply take_app_prefix. unfold len, drop. rewrite skipn_length, Hl. change (N.to_nat 8) with 8%nat. lia. }
  assert (D4 : take 4 (drop 4 (h12 ++ hc)) = take 4 (drop 4 h12)).
  { rewrite drop_app_prefix by (unfold len; rewrite Hl; lia). apply take_app_prefix. unfold len, drop. rewrite skipn_length, Hl. change (N.to_nat 4) with 4%nat. lia. }
  rewrite D8, Htag. change (negb (beq fit_tag fit_tag)) with false. cbv iota.
  rewrite D4, Hds. change (14 =? 14) with true. cbn [andb].
  rewrite D12, T12. unfold hc at 1 2. rewrite (le16_le_bytes _ Bh). unfold crc_of. rewrite N.eqb_refl. cbn [negb]. cbv iota.
  assert (Dh : drop 14 bs = records ++ fc ++ tail) by (rewrite E1; apply drop_all_app; symmetry; exact Lh).
  rewrite Dh.
  rewrite (parses_fuel _ _ _ _ _ Hp) by (pose proof (parses_count _ _ _ _ _ Hp); unfold len in *; lia).
  assert (Efc : exists c0 c1, fc = [c0; c1] /\ c0 + 256 * c1 = write 0 records).
  { unfold fc. exists (write 0 records mod 256), (write 0 records / 256 mod 256). split; [reflexivity|]. lia. }
  destruct Efc as (c0 & c1 & Efc & Ecrc). rewrite Efc. cbn [app andb].
  assert (Tall : take (14 + len records) bs = (h12 ++ hc) ++ records).
  { rewrite E2. apply take_all_app. rewrite len_app, Lh. reflexivity. }
  rewrite Tall. rewrite Ecrc. unfold hc. rewrite (crc_header14_transparent h12 records Hok). rewrite N.eqb_refl. reflexivity.
Qed.

#[local] Opaque le_bytes.
Theorem encode_fit_wf_tail c f r tail : encode_fit c f = Ok r -> (ef_hsize f =? 12) = false ->
  bytes_ok (er_bytes r) -> len (er_bytes r) < 2 ^ 32 -> exists segs, wf_sequence (er_bytes r ++ tail) = Some (segs, tail).
Proof.
  unfold encode_fit. destruct (ef_msgs f) as [|m0 ms0] eqn:Em; [discriminate|].
  unfold bind. destruct (proto_validate_all _ _); try discriminate.
  destruct (validate_all _ _ _ _) as [vms| | |] eqn:Ev; try discriminate.
  destruct (encode_messages _ _ _ _) as [[records st]| | |] eqn:E; try discriminate.
  intros H E12. injection H as <-. cbn [er_bytes]. rewrite E12. change (14 =? 14) with true. cbv iota.
  destruct (encode_messages_acc _ _ _ _ _ _ E) as (x & Hx & Hs & Hc). cbn [app] in Hx. subst x.
  cbn [es_init es_datasize es_crc] in Hs, Hc. rewrite N.add_0_l in Hs.
  assert (Hb : es_datasize st < 2 ^ 32) by (eapply encode_messages_ds_bounded; [|exact E]; cbn; lia).
  assert (Hvms : Forall msg_ok vms) by (apply (validate_all_ok _ _ _ _ _ Ev); constructor).
  destruct (encode_messages_parses c vms (es_init c) [] records st (repeat 0 16) (winv_init c) Hvms E) as (lens' & segs & x & Hx & _ & P).
  cbn [app] in Hx. subst x.
  unfold marshal_header. change (14 <=? 12) with false. cbv iota. cbn [app].
  set (pv := if ef_profile f =? 0 then profile_Version else ef_profile f).
  set (ver := select_version c (ef_proto f)).
  set (h12 := 14 :: ver :: le_bytes 2 pv ++ le_bytes 4 (es_datasize st) ++ DataTypeFIT ++ []).
  set (E0 := (h12 ++ le_bytes 2 (write 0 h12)) ++ records ++ le_bytes 2 (es_crc st)).
  change (bytes_ok E0 -> len E0 < 2 ^ 32 -> exists segs0, wf_sequence (E0 ++ tail) = Some (segs0, tail)). unfold E0. clear E0.
  intros Hok Hhi.
  assert (Lh : length h12 = 12%nat) by (unfold h12; cbn [length]; rewrite !app_length, !le_bytes_length; reflexivity).
  assert (Lrec : len records + 16 = len ((h12 ++ le_bytes 2 (write 0 h12)) ++ records ++ le_bytes 2 (es_crc st))).
  { rewrite (len_app (h12 ++ _)), (len_app records), (len_app h12). unfold len. rewrite !le_bytes_length, Lh. lia. }
  assert (Hds : es_datasize st = len records).
  { rewrite <- (wrap_small 32 (es_datasize st) Hb), Hs. apply wrap_small. change (2 ^ 32) with 4294967296 in *. lia. }
  rewrite Hc in *. eexists. apply sequence_wf_tail.
  - exact Lh.
  - reflexivity.
  - unfold h12. destruct (le_bytes 2 pv) as [|p0 [|p1 [|? ?]]] eqn:E2;
      try (apply (f_equal (@length N)) in E2; rewrite le_bytes_length in E2; cbn in E2; lia).
    destruct (le_bytes 4 (es_datasize st)) as [|a4 [|b4 [|c4 [|d4 [|? ?]]]]] eqn:E4;
      try (apply (f_equal (@length N)) in E4; rewrite le_bytes_length in E4; cbn in E4; lia).
    reflexivity.
  - unfold h12. destruct (le_bytes 2 pv) as [|p0 [|p1 [|? ?]]] eqn:E2;
      try (apply (f_equal (@length N)) in E2; rewrite le_bytes_length in E2; cbn in E2; lia).
    cbn [app]. unfold drop, take. change (N.to_nat 4) with 4%nat. cbn [skipn].
    assert (L4 : length (le_bytes 4 (es_datasize st)) = 4%nat) by apply le_bytes_length.
    rewrite firstn_app, L4, Nat.sub_diag, <- L4, firstn_all. cbn [firstn]. rewrite app_nil_r.
    rewrite le32_le_bytes by exact Hb. exact Hds.
  - apply bytes_ok_app in Hok. destruct Hok as [Hok _]. apply bytes_ok_app in Hok. apply Hok.
  - apply bytes_ok_app in Hok. destruct Hok as [_ Hok]. apply bytes_ok_app in Hok. apply Hok.
  - specialize (P (le_bytes 2 (write 0 records) ++ tail) 0 [] (le_bytes 2 (write 0 records) ++ tail) (P_nil _ _)).
    rewrite N.add_0_r, app_nil_r in P. exact P.
Qed.

(* ---------------------------------------------------------------- chains *)
Lemma encode_fits_results c : forall fs acc out, encode_fits c fs acc = Ok out ->
  exists rs, Forall2 (fun f r => encode_fit c f = Ok r) fs rs /\ out = acc ++ concat (map er_bytes rs).
Proof.
  induction fs as [|f fs IH]; intros acc out H; cbn [encode_fits] in H.
  - injection H as <-. exists []. split; [constructor|]. cbn. rewrite app_nil_r. reflexivity.
  - unfold bind in H. destruct (encode_fit c f) as [r| | |] eqn:E; try discriminate.
    destruct (IH _ _ H) as (rs & HF & ->). exists (r :: rs). split; [constructor; assumption|]. cbn [map concat]. rewrite app_assoc. reflexivity.
Qed.

Lemma bytes_ok_concat_hd (a b : bytes) : bytes_ok (a ++ b) -> bytes_ok a /\ bytes_ok b.
Proof. intros H. apply Forall_app in H. exact H. Qed.

Theorem encode_fits_wf c fs out : encode_fits c fs [] = Ok out -> Forall (fun f => (ef_hsize f =? 12) = false) fs ->
  bytes_ok out -> len out < 2 ^ 32 -> wf_stream false (S (length fs)) out (N.of_nat (length fs)) = true.
Proof.
  intros Henc H14 Hok Hlen. destruct (encode_fits_results c fs [] out Henc) as (rs & HF & ->). cbn [app] in *.
  clear Henc. revert H14 Hok Hlen. induction HF as [|f r fs rs Hfr HF IH]; intros H14 Hok Hlen.
  - reflexivity.
  - inversion H14 as [|? ? Hf Hfs]; subst. cbn [map concat] in *. cbn [length]. cbn [wf_stream].
    replace (N.of_nat (S (length fs)) =? 0) with false by (symmetry; apply N.eqb_neq; lia).
    destruct (bytes_ok_concat_hd _ _ Hok) as [Hok1 Hok2].
    assert (Hl1 : len (er_bytes r) < 2 ^ 32) by (rewrite len_app in Hlen; lia).
    destruct (encode_fit_wf_tail c f r (concat (map er_bytes rs)) Hfr Hf Hok1 Hl1) as (segs & Hw). unfold wf_sequence in Hw. rewrite Hw.
    replace (N.of_nat (S (length fs)) - 1) with (N.of_nat (length fs)) by lia.
    apply IH; [exact Hfs|exact Hok2|rewrite len_app in Hlen; lia].
Qed.

Corollary encode_fits_wf_b c fs out : encode_fits c fs [] = Ok out -> Forall (fun f => (ef_hsize f =? 12) = false) fs ->
  bytes_ok out -> len out < 2 ^ 32 -> wf_stream_b out (N.of_nat (length fs)) = true.
Proof. intros H1 H2 H3 H4. unfold wf_stream_b. rewrite Nnat.Nat2N.id. exact (encode_fits_wf c fs out H1 H2 H3 H4). Qed.
