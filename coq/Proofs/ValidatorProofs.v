(* C10: what message validation guarantees about the fields it keeps (limits), what it removes (frame), idempotence. *)
From Coq Require Import NArith ZArith List Lia Bool ZifyN ZifyNat ZifyBool.
Import ListNotations.
From Fit Require Import Model.Encoder Proofs.ValueProofs.
Open Scope N_scope.

Definition keepable (preserve : bool) (f : field) : bool := preserve || valid (f_value f) (f_base f).
Definition integrity_ok (f : field) : bool :=
  match value_integrity (f_value f) (f_base f) with Ok _ => true | _ => false end.
(* the fields validation retains, in order *)
Definition retained (preserve : bool) (fs : list field) : list field :=
  filter (keepable preserve) (map restore_field (filter (fun f => negb (f_expanded f)) fs)).

Lemma value_integrity_cases v b : (exists e, value_integrity v b = Err e) \/ value_integrity v b = Ok tt.
Proof.
  unfold value_integrity. destruct (negb (align v b)); [left; eexists; reflexivity|].
  destruct (negb _); [left; eexists; reflexivity|]. destruct (255 <? size v); [left; eexists; reflexivity|right; reflexivity].
Qed.

Lemma restore_keeps_expanded f : f_expanded (restore_field f) = f_expanded f.
Proof. unfold restore_field. destruct (scaled (f_fb f)); reflexivity. Qed.

(* frame: the result is the accumulator followed by exactly the retained fields, all of which pass the integrity test,
   and the total never exceeds 255 *)
Lemma validate_fields_spec preserve : forall fs kept out, validate_fields preserve fs kept = Ok out ->
  out = kept ++ retained preserve fs /\ forallb integrity_ok (retained preserve fs) = true /\ (length kept <= 255 -> length out <= 255)%nat.
Proof.
  induction fs as [|f fs IH]; intros kept out H; cbn [validate_fields] in H.
  - injection H as <-. unfold retained. cbn. rewrite app_nil_r. auto.
  - unfold retained in *. cbn [filter map].
    destruct (f_expanded f) eqn:Ex; cbn [negb].
    + apply IH in H. exact H.
    + cbn [map filter].
      assert (Hg : negb preserve && negb (valid (f_value (restore_field f)) (f_base (restore_field f))) = negb (keepable preserve (restore_field f))).
      { unfold keepable. destruct preserve, (valid _ _); reflexivity. }
      rewrite Hg in H. destruct (keepable preserve (restore_field f)) eqn:Ek; cbn [negb] in H.
      * unfold bind in H.
        destruct (value_integrity_cases (f_value (restore_field f)) (f_base (restore_field f))) as [[e He]|He]; rewrite He in H; [discriminate|].
        destruct (len kept =? 255) eqn:E255; [discriminate|].
        apply IH in H. destruct H as (-> & Hint & Hlen). split; [rewrite <- app_assoc; reflexivity|]. split.
        -- cbn [forallb]. unfold integrity_ok at 1. rewrite He. exact Hint.
        -- intros Hk0. apply Hlen. rewrite app_length. cbn [length]. unfold len in E255. lia.
      * apply IH in H. exact H.
Qed.

Theorem validate_fields_frame preserve fs out : validate_fields preserve fs [] = Ok out -> out = retained preserve fs.
Proof. intros H. apply validate_fields_spec in H. destruct H as [-> _]. reflexivity. Qed.

Theorem validate_fields_post preserve fs out : validate_fields preserve fs [] = Ok out ->
  (length out <= 255)%nat /\
  Forall (fun f => f_expanded f = false /\ align (f_value f) (f_base f) = true /\ size (f_value f) <= 255
                   /\ (preserve = false -> valid (f_value f) (f_base f) = true)) out.
Proof.
  intros H. pose proof (validate_fields_spec _ _ _ _ H) as (-> & Hint & Hlen). cbn [app] in *.
  split; [apply Hlen; cbn; lia|]. apply Forall_forall. intros f Hin.
  rewrite forallb_forall in Hint. specialize (Hint f Hin).
  unfold retained in Hin. apply filter_In in Hin. destruct Hin as [Hin Hkeep].
  apply in_map_iff in Hin. destruct Hin as (g & <- & Hg). apply filter_In in Hg. destruct Hg as [_ Hex].
  split; [rewrite restore_keeps_expanded; destruct (f_expanded g); [discriminate|reflexivity]|].
  unfold integrity_ok, value_integrity in Hint.
  destruct (align _ _) eqn:Ea; cbn [negb] in Hint; [|discriminate].
  destruct (negb _); [discriminate|]. destruct (255 <? size _) eqn:Es; [discriminate|].
  split; [reflexivity|]. split; [lia|]. intros ->. unfold keepable in Hkeep. cbn in Hkeep. exact Hkeep.
Qed.

(* strings that are kept are valid UTF-8 *)
Theorem validate_fields_utf8 preserve fs out : validate_fields preserve fs [] = Ok out ->
  Forall (fun f => match f_value f with VStr s => utf8_valid s = true | VStrs ss => forallb utf8_valid ss = true | _ => True end) out.
Proof.
  intros H. pose proof (validate_fields_spec _ _ _ _ H) as (-> & Hint & _). cbn [app]. apply Forall_forall. intros f Hin.
  rewrite forallb_forall in Hint. specialize (Hint f Hin). unfold integrity_ok, value_integrity in Hint.
  destruct (negb (align _ _)); [discriminate|].
  destruct (f_value f); try exact I; cbn [negb] in Hint.
  - destruct (utf8_valid s); [reflexivity|discriminate].
  - destruct (forallb utf8_valid ss); [reflexivity|discriminate].
Qed.

(* idempotence on the fields: validating the retained fields again changes nothing, provided restoring them again
   changes nothing (false exactly for float64 targets with a scale: known finding dev_float64_with_scale) *)
Lemma filter_length_le {A} (f : A -> bool) l : (length (filter f l) <= length l)%nat.
Proof. induction l as [|x l IH]; cbn [filter length]; [lia|]. destruct (f x); cbn [length]; lia. Qed.

Lemma retained_fixed preserve kept : Forall (fun f => f_expanded f = false /\ restore_field f = f /\ keepable preserve f = true) kept ->
  retained preserve kept = kept.
Proof.
  induction 1 as [|f l (Hex & Hr & Hk) _ IH]; [reflexivity|].
  unfold retained in *. cbn [filter map]. rewrite Hex. cbn [negb map filter]. rewrite Hr, Hk, IH. reflexivity.
Qed.

Theorem validate_fields_idempotent preserve fs out : validate_fields preserve fs [] = Ok out ->
  Forall (fun f => restore_field f = f) out -> validate_fields preserve out [] = Ok out.
Proof.
  intros H Hfix. pose proof (validate_fields_post _ _ _ H) as [Hlen Hpost].
  pose proof (validate_fields_spec _ _ _ _ H) as (Hout & Hint & _). cbn [app] in Hout.
  assert (Hret : retained preserve out = out).
  { apply retained_fixed. apply Forall_forall. intros f Hin.
    rewrite Forall_forall in Hfix, Hpost. destruct (Hpost f Hin) as (Hex & _ & _ & Hv). split; [exact Hex|]. split; [apply Hfix; exact Hin|].
    unfold keepable. destruct preserve; [reflexivity|]. cbn. apply Hv. reflexivity. }
  assert (Hint' : forallb integrity_ok out = true) by (rewrite Hout; exact Hint).
  clear H Hout Hint Hpost.
  assert (Hgen : forall l kept, retained preserve l = l -> forallb integrity_ok l = true -> (length kept + length l <= 255)%nat ->
                 validate_fields preserve l kept = Ok (kept ++ l)).
  { induction l as [|f l IH]; intros kept Hr Hi Hl; cbn [validate_fields]; [rewrite app_nil_r; reflexivity|].
    unfold retained in Hr. cbn [filter map] in Hr.
    destruct (f_expanded f) eqn:Ex; cbn [negb map filter] in Hr.
    - exfalso. assert (Hlen' : (length (filter (keepable preserve) (map restore_field (filter (fun f0 => negb (f_expanded f0)) l))) <= length l)%nat).
      { etransitivity; [apply filter_length_le|]. rewrite map_length. apply filter_length_le. }
      rewrite Hr in Hlen'. cbn in Hlen'. lia.
    - destruct (keepable preserve (restore_field f)) eqn:Ek.
      + injection Hr as Hrf Hrl. rewrite Hrf.
        unfold keepable in Ek. rewrite Hrf in Ek.
        assert (Eg : negb preserve && negb (valid (f_value f) (f_base f)) = false).
        { destruct preserve; [reflexivity|]. cbn in *. rewrite Ek. reflexivity. }
        rewrite Eg. cbn [forallb] in Hi. apply andb_prop in Hi. destruct Hi as [Hi1 Hi2].
        unfold integrity_ok in Hi1. unfold bind.
        destruct (value_integrity (f_value f) (f_base f)) as [[]| | |]; try discriminate.
        cbn [length] in Hl.
        destruct (len kept =? 255) eqn:E255; [unfold len in E255; lia|].
        rewrite IH; [rewrite <- app_assoc; reflexivity|exact Hrl|exact Hi2|rewrite app_length; cbn; lia].
      + exfalso. assert (Hlen' : (length (filter (keepable preserve) (map restore_field (filter (fun f0 => negb (f_expanded f0)) l))) <= length l)%nat).
        { etransitivity; [apply filter_length_le|]. rewrite map_length. apply filter_length_le. }
        rewrite Hr in Hlen'. cbn in Hlen'. lia. }
  apply (Hgen out []); [exact Hret|exact Hint'|cbn; lia].
Qed.

(* ---------------------------------------------------------------- developer fields *)
Definition desc_of (vs : vstate) (d : devfield) : option fdesc := find_fdesc (v_fdescs vs) (df_idx d) (df_num d).
Definition retained_devs (preserve : bool) (vs : vstate) (ds : list devfield) : list devfield :=
  flat_map (fun d => match desc_of vs d with
                     | Some fd => let d' := restore_dev d fd in if preserve || valid (df_value d') (fdx_base fd) then [d'] else []
                     | None => [] end) ds.
Definition dev_declared (vs : vstate) (d : devfield) : Prop := existsb (N.eqb (df_idx d)) (v_devidx vs) = true /\ desc_of vs d <> None.
(* frame: accepted developer fields all belong to a declared developer data index and have a field description; the result is
   exactly the restored fields whose value is valid under the description's base type (or all of them when preserving), in
   order; each passes the integrity test against the description's base type; at most 255 *)
Lemma validate_devs_spec preserve vs : forall ds kept out, validate_devs preserve vs ds kept = Ok out ->
  out = kept ++ retained_devs preserve vs ds /\ Forall (dev_declared vs) ds /\ (length kept <= 255 -> length out <= 255)%nat.
Proof.
  induction ds as [|d ds IH]; intros kept out H; cbn [validate_devs] in H.
  - injection H as <-. cbn. rewrite app_nil_r. auto.
  - destruct (negb (existsb (N.eqb (df_idx d)) (v_devidx vs))) eqn:Ei; [discriminate|]. apply negb_false_iff in Ei.
    cbn [retained_devs flat_map]. unfold desc_of at 1. destruct (find_fdesc (v_fdescs vs) (df_idx d) (df_num d)) as [fd|] eqn:Ef; [|discriminate].
    assert (Hdecl : dev_declared vs d) by (split; [exact Ei|unfold desc_of; rewrite Ef; discriminate]).
    cbv zeta.
    assert (Hg : negb preserve && negb (valid (df_value (restore_dev d fd)) (fdx_base fd)) = negb (preserve || valid (df_value (restore_dev d fd)) (fdx_base fd)))
      by (destruct preserve, (valid _ _); reflexivity).
    rewrite Hg in H. destruct (preserve || valid (df_value (restore_dev d fd)) (fdx_base fd)); cbn [negb] in H.
    + unfold bind in H. destruct (value_integrity_cases (df_value (restore_dev d fd)) (fdx_base fd)) as [[e He]|He]; rewrite He in H; [discriminate|].
      destruct (len kept =? 255) eqn:E255; [discriminate|].
      apply IH in H. destruct H as (-> & Hd & Hlen). split; [rewrite <- app_assoc; reflexivity|]. split; [constructor; assumption|].
      intros Hk0. apply Hlen. rewrite app_length. cbn [length]. unfold len in E255. lia.
    + apply IH in H. destruct H as (-> & Hd & Hlen). split; [reflexivity|]. split; [constructor; assumption|exact Hlen].
Qed.

Theorem validate_devs_frame preserve vs ds out : validate_devs preserve vs ds [] = Ok out ->
  out = retained_devs preserve vs ds /\ Forall (dev_declared vs) ds /\ (length out <= 255)%nat.
Proof. intros H. apply validate_devs_spec in H. destruct H as (-> & Hd & Hl). split; [reflexivity|]. split; [exact Hd|apply Hl; cbn; lia]. Qed.
