(* C04 at the level of Decode (not only CheckIntegrity): with checksum verification on, whenever the model of the full decoder
   accepts a sequence, the bytes between the file header and the end of the trailing CRC -- whatever their number -- are a
   CRC codeword (running CRC-16 from 0 over them is 0): every byte the decoder reads through readN is hashed, whatever it is
   taken for, and the trailing two bytes are compared with the running value.  Together with the burst theorem (C04_burst)
   this makes Decode reject a file whose record region or stored CRC was hit by a burst of at most 16 bits. *)
From Coq Require Import NArith ZArith List Lia Bool ZifyN ZifyNat ZifyBool.
Import ListNotations.
From Fit Require Import Model.Decoder Proofs.RawSafety Proofs.EncoderProofs Proofs.AcceptProofs Proofs.CrcDetection Proofs.IntegrityProofs Proofs.IntegrityModel Proofs.RawWire Proofs.DecoderWire.
Open Scope N_scope.
#[local] Arguments N.add : simpl never.
#[local] Arguments N.mul : simpl never.
#[local] Arguments N.sub : simpl never.
#[local] Opaque write.

(* [hashed c k s s']: s' is s after exactly k more bytes went through readN: consumed, counted and (checksum on) hashed *)
Definition hashed (c : dcfg) (k : N) (s s' : dstate) : Prop :=
  k <= len (s_rest s) /\ s_rest s' = drop k (s_rest s) /\ bufok s' /\ s_cur s' = wrap 32 (s_cur s + k) /\ s_header s' = s_header s
  /\ s_crc s' = (if c_checksum c then write (s_crc s) (take k (s_rest s)) else s_crc s).
(* updates that leave stream, counter, header and CRC alone *)
Definition samec (s s' : dstate) : Prop :=
  s_rest s' = s_rest s /\ s_buf s' = s_buf s /\ s_cur s' = s_cur s /\ s_header s' = s_header s /\ s_crc s' = s_crc s.

Lemma samec_refl s : samec s s. Proof. repeat split. Qed.
Lemma samec_trans a b c : samec a b -> samec b c -> samec a c.
Proof. intros (A1 & A2 & A3 & A4 & A5) (B1 & B2 & B3 & B4 & B5). unfold samec. rewrite B1, B2, B3, B4, B5. auto. Qed.
Lemma sc_upd_time s a b : samec s (upd_time s a b). Proof. repeat split. Qed.
Lemma sc_upd_acc s a : samec s (upd_acc s a). Proof. repeat split. Qed.
Lemma sc_upd_dev s a b : samec s (upd_dev s a b). Proof. repeat split. Qed.
Lemma sc_upd_fileid s a : samec s (upd_fileid s a). Proof. repeat split. Qed.
Lemma sc_upd_defs s a : samec s (upd_defs s a). Proof. repeat split. Qed.
Lemma sc_push_msg s a : samec s (push_msg s a). Proof. repeat split. Qed.
Lemma sc_push_event s a : samec s (push_event s a). Proof. repeat split. Qed.

Lemma hashed_0 c s : bufok s -> s_cur s < 4294967296 -> hashed c 0 s s.
Proof.
  intros Hb Hc. unfold hashed. split; [lia|]. split; [reflexivity|]. split; [exact Hb|]. split; [rewrite N.add_0_r; symmetry; apply wrap32_small; exact Hc|].
  split; [reflexivity|]. destruct (c_checksum c); [|reflexivity]. unfold take. cbn [N.to_nat firstn]. rewrite write_nil. reflexivity.
Qed.
Lemma hashed_samec_r c k s s1 s2 : hashed c k s s1 -> samec s1 s2 -> hashed c k s s2.
Proof.
  intros (A1 & A2 & A3 & A4 & A5 & A6) (B1 & B2 & B3 & B4 & B5). unfold hashed, bufok in *. rewrite B1, B2, B3, B4, B5. repeat split; assumption.
Qed.
Lemma hashed_samec_l c k s s1 s2 : samec s s1 -> hashed c k s1 s2 -> hashed c k s s2.
Proof.
  intros (B1 & B2 & B3 & B4 & B5) (A1 & A2 & A3 & A4 & A5 & A6). unfold hashed in *. rewrite B1, B3, B4, B5 in *. repeat split; assumption.
Qed.
Lemma hashed_trans c k1 k2 s s1 s2 : hashed c k1 s s1 -> hashed c k2 s1 s2 -> hashed c (k1 + k2) s s2.
Proof.
  intros (A1 & A2 & A3 & A4 & A5 & A6) (B1 & B2 & B3 & B4 & B5 & B6). unfold hashed.
  rewrite A2, len_drop' in B1. split; [lia|]. split; [rewrite B2, A2, drop_drop'; reflexivity|]. split; [exact B3|].
  split; [rewrite B4, A4, wrap_add; f_equal; lia|]. split; [congruence|].
  rewrite B6, A6, A2. destruct (c_checksum c); [|reflexivity]. rewrite take_add, write_app. reflexivity.
Qed.
Lemma hashed_bufok c k s s' : hashed c k s s' -> bufok s'. Proof. intros (_ & _ & H & _). exact H. Qed.
Lemma hashed_cur_small c k s s' : hashed c k s s' -> s_cur s' < 4294967296. Proof. intros (_ & _ & _ & -> & _). apply (wrap_lt 32). Qed.
Lemma samec_bufok s s' : samec s s' -> bufok s -> bufok s'.
Proof. intros (A1 & A2 & _) H. unfold bufok in *. rewrite A1, A2. exact H. Qed.

Lemma read_n_hashed c s n : bufok s -> wpost (read_n c s n) (fun r => fst r = take n (s_rest s) /\ hashed c n s (snd r)).
Proof.
  unfold bufok, read_n, read_raw. intros Hb.
  destruct (n <=? s_buf s) eqn:E1.
  - cbn. unfold hashed, bufok. cbn. rewrite len_drop'. split; [reflexivity|]. split; [lia|]. split; [reflexivity|]. split; [lia|]. split; [reflexivity|]. split; [reflexivity|]. destruct (c_checksum c); reflexivity.
  - destruct (n <=? s_buf s + N.min (len (s_rest s) - s_buf s) (c_bufsize c)) eqn:E2; [|exact I].
    cbn. unfold hashed, bufok. cbn. rewrite len_drop'. split; [reflexivity|]. split; [lia|]. split; [reflexivity|]. split; [lia|]. split; [reflexivity|]. split; [reflexivity|]. destruct (c_checksum c); reflexivity.
Qed.

Lemma read_value_hashed c s sz arch base ptype arr ovr : bufok s -> wpost (read_value c s sz arch base ptype arr ovr) (fun r => hashed c sz s (snd r)).
Proof.
  intros Hb. unfold read_value. eapply wpost_bind; [apply read_n_hashed; exact Hb|]. intros [b s1] [_ H]. cbn [fst snd] in H. cbv beta iota zeta.
  eapply wpost_bind; [apply wpost_any|]. intros v _. cbn. exact H.
Qed.

Lemma decode_fields_hashed c arch mesgnum : forall fds s fs, bufok s -> s_cur s < 4294967296 ->
  wpost (decode_fields c s arch mesgnum fds fs) (fun r => hashed c (sum_fd fds) s (snd r)).
Proof.
  induction fds as [|fd rest IH]; intros s fs Hb Hc; cbn [decode_fields sum_fd fold_right]; [cbn; apply hashed_0; assumption|].
  fold (sum_fd rest).
  eapply wpost_bind; [apply wpost_any|]. intros [f ovr] _. cbv beta iota zeta.
  destruct (fd_size fd =? 0) eqn:E0.
  { apply N.eqb_eq in E0. rewrite E0, N.add_0_l. apply IH; assumption. }
  destruct (if fd_size fd <? bt_size (f_base f) then (bt_uint8, pt_Uint8, true) else (f_base f, fb_ptype (f_fb f), fb_array (f_fb f))) as [[rb rp] ra].
  eapply wpost_bind; [apply read_value_hashed; exact Hb|]. intros [v s1] H1. cbn [snd] in H1. cbv beta iota zeta.
  set (v2 := if negb (rb =? f_base f) then convert_bytes_to_value (slice_u8 v) arch (f_base f) else v).
  set (s2 := match v2 with
             | VNum TU32 t0 => if f_num f =? FieldNumTimestamp then upd_time s1 (fst (clock_full t0)) (snd (clock_full t0)) else s1
             | _ => s1 end).
  assert (H2 : samec s1 s2).
  { unfold s2. destruct v2 as [|ty x|ty l|sv|ss]; try apply samec_refl. destruct ty; try apply samec_refl.
    destruct (f_num f =? FieldNumTimestamp); [apply sc_upd_time|apply samec_refl]. }
  set (s3 := if fb_accum (f_fb f) && c_expand c then upd_acc s2 (collect_accumulable (s_acc s2) mesgnum (f_num f) v2) else s2).
  assert (H3 : samec s1 s3).
  { unfold s3. destruct (fb_accum (f_fb f) && c_expand c); [eapply samec_trans; [exact H2|apply sc_upd_acc]|exact H2]. }
  eapply wpost_weaken; [apply IH; [eapply samec_bufok; [exact H3|eapply hashed_bufok; exact H1]|destruct H3 as (_ & _ & -> & _); eapply hashed_cur_small; exact H1]|].
  intros r Hr. eapply hashed_trans; [eapply hashed_samec_r; [exact H1|exact H3]|exact Hr].
Qed.

Lemma decode_dev_fields_hashed c arch : forall dds s out, bufok s -> s_cur s < 4294967296 ->
  wpost (decode_dev_fields c s arch dds out) (fun r => hashed c (sum_dd dds) s (snd r)).
Proof.
  induction dds as [|dd rest IH]; intros s out Hb Hc; cbn [decode_dev_fields sum_dd fold_right]; [cbn; apply hashed_0; assumption|].
  fold (sum_dd rest).
  destruct (find_fdesc (s_fdescs s) (dd_idx dd) (dd_num dd)) as [fdsc|].
  - destruct (negb (bt_valid (fdx_base fdsc))); [exact I|].
    eapply wpost_bind; [apply wpost_any|]. intros dv _.
    destruct (dd_size dd =? 0) eqn:E0.
    { apply N.eqb_eq in E0. rewrite E0, N.add_0_l. apply IH; assumption. }
    destruct (if dd_size dd <? bt_size (fdx_base fdsc) then (bt_uint8, pt_Uint8, true) else (fdx_base fdsc, N.land (fdx_base fdsc) BaseTypeNumMask, dv)) as [[rb rp] ra].
    eapply wpost_bind; [apply read_value_hashed; exact Hb|]. intros [v s1] H1. cbn [snd] in H1. cbv beta iota zeta.
    eapply wpost_weaken; [apply IH; [eapply hashed_bufok; exact H1|eapply hashed_cur_small; exact H1]|].
    intros r Hr. eapply hashed_trans; [exact H1|exact Hr].
  - eapply wpost_bind; [apply read_n_hashed; exact Hb|]. intros [b s1] [_ H1]. cbn [snd] in H1. cbv beta iota zeta.
    eapply wpost_weaken; [apply IH; [eapply hashed_bufok; exact H1|eapply hashed_cur_small; exact H1]|].
    intros r Hr. eapply hashed_trans; [exact H1|exact Hr].
Qed.

Lemma decode_data_body_hashed c s header d fs0 : bufok s -> s_cur s < 4294967296 ->
  wpost (decode_data_body c s header d fs0) (hashed c (sum_fd (md_fields d) + sum_dd (md_devs d)) s).
Proof.
  intros Hb Hc. unfold decode_data_body.
  eapply wpost_bind; [apply decode_fields_hashed; assumption|]. intros [fs s1] H1. cbn [fst snd] in *. cbv beta iota zeta.
  set (r2 := if c_expand c then (fst (expand_all (length fs) 0 (md_num d) fs (s_acc s1)), upd_acc s1 (snd (expand_all (length fs) 0 (md_num d) fs (s_acc s1)))) else (fs, s1)).
  assert (H2 : samec s1 (snd r2)) by (unfold r2; destruct (c_expand c); cbn [snd]; [apply sc_upd_acc|apply samec_refl]).
  set (fs2 := fst r2). clearbody fs2. set (s2 := snd r2) in *. clearbody s2. clear r2.
  set (s3 := match s_fileid s2 with None => if md_num d =? mesgnum_FileId then upd_fileid s2 (Some (mkmsg header (md_num d) fs2 [])) else s2 | Some _ => s2 end).
  assert (H3 : samec s2 s3) by (unfold s3; destruct (s_fileid s2); [apply samec_refl|]; destruct (md_num d =? mesgnum_FileId); [apply sc_upd_fileid|apply samec_refl]).
  clearbody s3.
  set (s4 := if md_num d =? mesgnum_DeveloperDataId then upd_dev s3 (s_devidx s3 ++ [u8_of (field_value_by_num fs2 fn_DeveloperDataId_DeveloperDataIndex)]) (s_fdescs s3)
             else if md_num d =? mesgnum_FieldDescription then upd_dev s3 (s_devidx s3) (s_fdescs s3 ++ [new_field_description fs2]) else s3).
  assert (H4 : samec s3 s4).
  { unfold s4. destruct (md_num d =? mesgnum_DeveloperDataId); [apply sc_upd_dev|]. destruct (md_num d =? mesgnum_FieldDescription); [apply sc_upd_dev|apply samec_refl]. }
  clearbody s4.
  assert (H14 : hashed c (sum_fd (md_fields d)) s s4) by (eapply hashed_samec_r; [exact H1|]; eapply samec_trans; [exact H2|]; eapply samec_trans; eassumption).
  eapply (wpost_bind _ _ (fun r3 => hashed c (sum_fd (md_fields d) + sum_dd (md_devs d)) s (snd r3))).
  - destruct (md_devs d) as [|d0 ds] eqn:Ed.
    + cbn. rewrite N.add_0_r. exact H14.
    + eapply wpost_weaken; [apply decode_dev_fields_hashed; [eapply hashed_bufok; exact H14|eapply hashed_cur_small; exact H14]|].
      intros r Hr. eapply hashed_trans; [exact H14|exact Hr].
  - intros [dv s5] H5. cbn [fst snd] in *. cbn. eapply hashed_samec_r; [exact H5|apply sc_push_msg].
Qed.

(* one record, whatever it is: at least its header byte *)
Lemma decode_message_hashed c s : bufok s -> wpost (decode_message c s) (fun s' => exists k, 1 <= k /\ hashed c k s s').
Proof.
  intros Hb. unfold decode_message.
  eapply wpost_bind; [apply read_n_hashed; exact Hb|]. intros [b s1] [_ H1]. cbn [fst snd] in *. cbv beta iota zeta.
  eapply wpost_bind; [apply wpost_any|]. intros header _.
  pose proof (hashed_bufok _ _ _ _ H1) as B1. pose proof (hashed_cur_small _ _ _ _ H1) as C1.
  destruct (N.land header (N.lor MesgCompressedHeaderMask MesgDefinitionMask) =? MesgDefinitionMask).
  - (* definition *)
    unfold decode_definition.
    eapply wpost_bind; [apply read_n_hashed; exact B1|]. intros [b2 s2] [_ H2]. cbn [fst snd] in *. cbv beta iota zeta.
    do 4 (eapply wpost_bind; [apply wpost_any|]; intros ? _).
    eapply wpost_bind; [apply read_n_hashed; eapply hashed_bufok; exact H2|]. intros [b3 s3] [_ H3]. cbn [fst snd] in *. cbv beta iota zeta.
    eapply wpost_bind; [apply wpost_any|]. intros fds _.
    eapply (wpost_bind _ _ (fun r2 => exists k, hashed c k s3 (snd r2))).
    + destruct (has header DevDataMask).
      * eapply wpost_bind; [apply read_n_hashed; eapply hashed_bufok; exact H3|]. intros [b4 s4] [_ H4]. cbn [fst snd] in *. cbv beta iota zeta.
        eapply wpost_bind; [apply wpost_any|]. intros m _.
        eapply wpost_bind; [apply read_n_hashed; eapply hashed_bufok; exact H4|]. intros [b5 s5] [_ H5]. cbn [fst snd] in *. cbv beta iota zeta.
        cbn. eexists. eapply hashed_trans; [exact H4|exact H5].
      * cbn. exists 0. apply hashed_0; [eapply hashed_bufok; exact H3|eapply hashed_cur_small; exact H3].
    + intros [dds s6] (k & H6). cbn [fst snd] in *. cbn.
      eexists. split; [|eapply hashed_samec_r; [eapply hashed_trans; [eapply hashed_trans; [eapply hashed_trans; [exact H1|exact H2]|exact H3]|exact H6]|
                         eapply samec_trans; [apply sc_upd_defs|apply sc_push_event]]]. lia.
  - (* data *)
    unfold decode_data. cbv zeta.
    destruct (nth _ (s_defs s1) None) as [d|]; [|exact I].
    destruct (has header MesgCompressedHeaderMask).
    + eapply wpost_weaken; [apply (decode_data_body_hashed c (upd_time s1 _ _)); [exact B1|exact C1]|].
      intros s' H. eexists. split; [|eapply hashed_trans; [exact H1|eapply hashed_samec_l; [apply sc_upd_time|exact H]]]. lia.
    + eapply wpost_weaken; [apply (decode_data_body_hashed c s1); [exact B1|exact C1]|].
      intros s' H. eexists. split; [|eapply hashed_trans; [exact H1|exact H]]. lia.
Qed.

Lemma decode_messages_hashed c : forall fuel s, bufok s -> s_cur s < 4294967296 ->
  wpost (decode_messages fuel c s) (fun s' => exists k, hashed c k s s' /\ h_datasize (s_header s) <= s_cur s').
Proof.
  induction fuel as [|fuel IH]; intros s Hb Hc; cbn [decode_messages].
  - destruct (h_datasize (s_header s) <=? s_cur s) eqn:E; [|exact I]. cbn. exists 0. split; [apply hashed_0; assumption|apply N.leb_le; exact E].
  - destruct (h_datasize (s_header s) <=? s_cur s) eqn:E.
    + cbn. exists 0. split; [apply hashed_0; assumption|apply N.leb_le; exact E].
    + eapply wpost_bind; [apply decode_message_hashed; exact Hb|]. intros s1 (k1 & _ & H1).
      eapply wpost_weaken; [apply IH; [eapply hashed_bufok; exact H1|eapply hashed_cur_small; exact H1]|].
      intros s' (k2 & H2 & Hd). exists (k1 + k2). split; [eapply hashed_trans; eassumption|].
      destruct H1 as (_ & _ & _ & _ & Hh & _). rewrite <- Hh. exact Hd.
Qed.

(* ---------------------------------------------------------------- a whole sequence *)
Lemma wpost_and {A} (r : outcome A) (P Q : A -> Prop) : wpost r P -> wpost r Q -> wpost r (fun a => P a /\ Q a).
Proof. destruct r; cbn; auto. Qed.

Lemma header_crc0 c s : wpost (decode_file_header c s) (fun s' => s_crc s' = 0).
Proof.
  unfold decode_file_header.
  eapply wpost_bind; [apply wpost_any|]. intros [b s1] _. cbv beta iota zeta.
  eapply wpost_bind; [apply wpost_any|]. intros size _.
  destruct (negb ((size =? 12) || (size =? 14))); [exact I|].
  eapply wpost_bind; [apply wpost_any|]. intros [b2 s2] _. cbv beta iota zeta.
  eapply wpost_bind; [apply wpost_any|]. intros dt _. destruct (negb (list_N_eqb dt DataTypeFIT)); [exact I|].
  eapply wpost_bind; [apply wpost_any|]. intros b0 _. eapply wpost_bind; [apply wpost_any|]. intros pv _.
  eapply wpost_bind; [apply wpost_any|]. intros ds _. cbv beta zeta. destruct (le_word ds =? 0); [exact I|].
  eapply wpost_bind; [apply wpost_any|]. intros hcrc _. cbv beta zeta.
  destruct ((hcrc =? 0) || negb (c_checksum c)); [reflexivity|]. destruct (negb (_ =? hcrc)); [exact I|reflexivity].
Qed.

Lemma read_raw_crc c s n : wpost (read_raw c s n) (fun r => s_crc (snd r) = s_crc s).
Proof. unfold read_raw. destruct (n <=? s_buf s); [reflexivity|]. destruct (n <=? _); [reflexivity|exact I]. Qed.

Definition codeword_post (s : dstate) (x : fit * dstate) : Prop :=
  exists hs k, (hs = 12 \/ hs = 14) /\ hs <= len (s_rest s) /\ k + 2 <= len (drop hs (s_rest s))
    /\ s_rest (snd x) = drop (k + 2) (drop hs (s_rest s)) /\ hs = nth 0 (s_rest s) 0
    /\ le_word (take 4 (drop 4 (s_rest s))) <= k /\ write 0 (take (k + 2) (drop hs (s_rest s))) = 0.

Lemma decode_one_codeword c s : c_checksum c = true -> bufok s -> s_cur s = 0 -> bytes_ok (s_rest s) -> wpost (decode_one c s) (codeword_post s).
Proof.
  intros Hck Hb Hc0 Hok. unfold decode_one.
  set (r := Raw.mkr (s_rest s) 0 []).
  eapply wpost_bind; [apply wpost_and; [apply (header_agree c s r eq_refl Hb)|apply header_crc0]|].
  intros s1 ((hs & hr & r1 & r2 & Er1 & Hhs & Er2 & _ & Hds & _ & _ & _ & B1 & C1 & _ & _ & _ & Hdrop & Hlen) & Hcrc1).
  assert (Hhd : hs = nth 0 (s_rest s) 0 /\ hs :: hr = take hs (s_rest s)).
  { destruct (read_full_take _ _ _ _ Er1) as (T1 & R1 & L1 & _). destruct (read_full_take _ _ _ _ Er2) as (T2 & R2 & L2 & _).
    cbn [r Raw.r_rest] in *. destruct (s_rest s) as [|x tl] eqn:Es; [change (len (@nil N)) with 0 in L1; lia|].
    change (take 1 (x :: tl)) with [x] in T1. injection T1 as <-. split; [reflexivity|].
    rewrite R1 in T2. change (drop 1 (hs :: tl)) with tl in T2. rewrite T2.
    replace hs with (1 + (hs - 1)) at 3 by lia. rewrite (take_add 1). reflexivity. }
  destruct Hhd as [Hnth Htake].
  assert (Hdsz : h_datasize (s_header s1) = le_word (take 4 (drop 4 (s_rest s)))).
  { rewrite Hds, Htake. unfold take, drop. rewrite skipn_firstn_comm. rewrite firstn_firstn.
    destruct Hhs as [-> | ->]; reflexivity. }
  eapply wpost_bind; [apply (decode_messages_hashed c _ s1 B1); rewrite C1, Hc0; lia|].
  intros s2 (k & (K1 & K2 & K3 & K4 & K5 & K6) & Hd). rewrite Hck, Hcrc1 in K6.
  unfold decode_crc.
  rewrite bind_assoc. eapply wpost_bind; [apply wpost_and; [apply (read_raw_fwd c s2 2 K3)|apply read_raw_crc]|].
  intros [b s3] ((Hb3 & L3 & R3 & B3 & C3 & Kp3) & Hcrc3). cbn [fst snd] in *. cbv beta iota zeta. rewrite Hck. cbn [andb].
  destruct (negb (s_crc s3 =? le_word b)) eqn:Ecmp; [exact I|]. cbn [bind]. cbn [wpost].
  apply negb_false_iff, N.eqb_eq in Ecmp. rewrite Hcrc3, K6 in Ecmp.
  unfold codeword_post. cbn [snd reset_seq push_event upd_crc upd_read s_rest].
  exists hs, k. rewrite Hdrop in K1, K2, Ecmp. rewrite K2 in L3, Hb3, R3.
  split; [exact Hhs|]. split; [exact Hlen|]. split; [rewrite len_drop' in L3; lia|].
  split; [rewrite R3, drop_drop'; reflexivity|]. split; [exact Hnth|].
  split. { rewrite <- Hdsz. rewrite K4, C1, Hc0, N.add_0_l in Hd. pose proof (RawSafety.wrap_le 32 k). lia. }
  rewrite take_add, <- Hb3.
  assert (Hbok : bytes_ok b) by (rewrite Hb3; apply bytes_ok_take, bytes_ok_drop, bytes_ok_drop; exact Hok).
  assert (Hbl : length b = 2%nat) by (rewrite Hb3; unfold take; rewrite firstn_length; unfold len in L3; lia).
  destruct b as [|c0 [|c1 [|? ?]]]; try discriminate.
  inversion Hbok as [|? ? H0 Hb']; subst. inversion Hb' as [|? ? H1 _]; subst.
  apply crc_match_syndrome; [apply bytes_ok_take, bytes_ok_drop; exact Hok| |exact H0|exact H1].
  rewrite Ecmp. cbn [le_word]. lia.
Qed.

(* ---------------------------------------------------------------- Decode as a whole *)
Theorem decode_accepts_codeword c bs fits evs : c_checksum c = true -> bytes_ok bs ->
  decode_all (S (length bs)) c (init_state bs) [] = (Ok fits, evs) -> exists x, codeword_post (init_state bs) x.
Proof.
  intros Hck Hok H. cbn [decode_all] in H.
  pose proof (decode_one_codeword c (init_state bs) Hck) as Hw.
  assert (Hb : bufok (init_state bs)) by (unfold bufok; cbn; lia).
  specialize (Hw Hb eq_refl Hok).
  destruct (decode_one c (init_state bs)) as [x|e|p|] eqn:Ed.
  - exists x. exact Hw.
  - exfalso. destruct (s_rest (init_state bs)); discriminate.
  - exfalso. destruct (s_rest (init_state bs)); discriminate.
  - exfalso. destruct (s_rest (init_state bs)); discriminate.
Qed.

(* a stream that is exactly one sequence long by its own header: everything after the header is a codeword *)
Theorem decode_single_sequence_codeword c bs fits evs : c_checksum c = true -> bytes_ok bs ->
  decode_all (S (length bs)) c (init_state bs) [] = (Ok fits, evs) ->
  len bs = nth 0 bs 0 + le_word (take 4 (drop 4 bs)) + 2 -> write 0 (drop (nth 0 bs 0) bs) = 0.
Proof.
  intros Hck Hok H Hlen. destruct (decode_accepts_codeword c bs fits evs Hck Hok H) as (x & hs & k & Hhs & Hl & Hk & _ & Hn & Hds & Hw).
  cbn [init_state s_rest] in *. rewrite <- Hn in *. rewrite len_drop' in Hk.
  assert (Ek : k + 2 = len (drop hs bs)) by (rewrite len_drop'; lia).
  rewrite Ek in Hw. unfold take, len in Hw. rewrite Nat2N.id, firstn_all in Hw. exact Hw.
Qed.

(* Decode rejects a single-sequence file whose record region or stored CRC was hit by a burst of at most 16 bits *)
Theorem decode_rejects_burst c hdr region region' i p j fits evs : c_checksum c = true ->
  bytes_ok hdr -> bytes_ok region -> bytes_ok region' -> write 0 region = 0 ->
  len hdr = nth 0 hdr 0 -> (8 <= length hdr)%nat -> len region' = le_word (take 4 (drop 4 hdr)) + 2 ->
  bits_ok p -> (length p < 16)%nat ->
  bits_of_bytes region' = xorl (bits_of_bytes region) (repeat 0 i ++ 1 :: p ++ repeat 0 j) ->
  length (bits_of_bytes region) = (i + S (length p) + j)%nat ->
  decode_all (S (length (hdr ++ region'))) c (init_state (hdr ++ region')) [] <> (Ok fits, evs).
Proof.
  intros Hck Hh Hr Hr' Hcw Hhl H8 Hrl Hp Hpl Hx Hlen Hdec.
  assert (Hn0 : nth 0 (hdr ++ region') 0 = nth 0 hdr 0) by (apply app_nth1; lia).
  assert (Hd4 : take 4 (drop 4 (hdr ++ region')) = take 4 (drop 4 hdr)).
  { unfold take, drop. rewrite skipn_app, firstn_app. replace (N.to_nat 4 - length (skipn (N.to_nat 4) hdr))%nat with 0%nat by (rewrite skipn_length; lia).
    cbn [firstn]. apply app_nil_r. }
  pose proof (decode_single_sequence_codeword c (hdr ++ region') fits evs Hck ltac:(apply Forall_app; split; assumption) Hdec) as Hc.
  rewrite Hn0, Hd4, <- Hhl in Hc. rewrite drop_app_exact in Hc by reflexivity.
  apply (burst_rejected region region' i p j Hr Hr' Hcw Hp Hpl Hx Hlen). apply Hc.
  rewrite RawProofs.len_app', Hrl. lia.
Qed.
