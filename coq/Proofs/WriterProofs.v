(* C09 on Model/Writer.v: with a destination that accepts everything, what ends up in the destination after Encode (any
   writer kind, any write buffer size, batch or stream) is the previous content followed by header(final) ++ records ++ crc. *)
From Coq Require Import NArith ZArith List Lia Bool ZifyN ZifyNat ZifyBool.
Import ListNotations.
From Fit Require Import Model.Writer.
Open Scope N_scope.

(* ---- put_at algebra *)
Lemma len_app'' {A} (a b : list A) : len (a ++ b) = len a + len b.
Proof. unfold len. rewrite app_length. lia. Qed.
Lemma len_take {A} n (l : list A) : n <= len l -> len (take n l) = n.
Proof. unfold len, take. intros H. rewrite firstn_length. lia. Qed.
Lemma len_drop {A} n (l : list A) : len (drop n l) = len l - n.
Proof. unfold len, drop. rewrite skipn_length. lia. Qed.
Lemma len_put_at bs c p : c <= len bs -> len (put_at bs c p) = N.max (len bs) (c + len p).
Proof. intros H. unfold put_at. rewrite !len_app'', len_take, len_drop by exact H. lia. Qed.

Lemma put_at_end bs p : put_at bs (len bs) p = bs ++ p.
Proof.
  unfold put_at, take, drop, len. rewrite Nat2N.id, firstn_all. f_equal.
  rewrite skipn_all2; [apply app_nil_r|lia].
Qed.
Lemma put_at_nil bs c : c <= len bs -> put_at bs c [] = bs.
Proof. intros H. unfold put_at, take, drop. cbn [app len length N.of_nat]. rewrite N.add_0_r. apply firstn_skipn. Qed.

Lemma take_app_l {A} n (a b : list A) : n = len a -> take n (a ++ b) = a.
Proof. intros ->. unfold take, len. rewrite Nat2N.id, firstn_app, Nat.sub_diag, firstn_all. cbn. apply app_nil_r. Qed.
Lemma drop_app_l {A} n (a b : list A) : n = len a -> drop n (a ++ b) = b.
Proof. intros ->. unfold drop, len. rewrite Nat2N.id, skipn_app, Nat.sub_diag, skipn_all. reflexivity. Qed.
Lemma skipn_skipn' {A} : forall a b (l : list A), skipn a (skipn b l) = skipn (b + a) l.
Proof.
  intros a b. revert a. induction b as [|b IH]; intros a l; [reflexivity|].
  destruct l as [|x l]; cbn [skipn Nat.add]; [destruct a; reflexivity|apply IH].
Qed.
Lemma drop_drop {A} a b (l : list A) : drop a (drop b l) = drop (b + a) l.
Proof. unfold drop. rewrite skipn_skipn'. f_equal. lia. Qed.

Lemma put_at_put_at bs c a b : c <= len bs -> put_at (put_at bs c a) (c + len a) b = put_at bs c (a ++ b).
Proof.
  intros H.
  assert (HX : put_at bs c a = (take c bs ++ a) ++ drop (c + len a) bs) by (unfold put_at; rewrite app_assoc; reflexivity).
  assert (Hl : c + len a = len (take c bs ++ a)) by (rewrite len_app'', len_take by exact H; reflexivity).
  unfold put_at at 1. rewrite HX.
  rewrite (take_app_l (c + len a) _ _ Hl).
  replace (c + len a + len b) with ((c + len a) + len b) by lia.
  rewrite <- (drop_drop (len b) (c + len a)).
  rewrite (drop_app_l (c + len a) _ _ Hl).
  rewrite drop_drop. unfold put_at. rewrite len_app'', <- !app_assoc. f_equal. f_equal. f_equal. f_equal. lia.
Qed.

(* ---- the logical view of a (possibly buffered) writer over a destination that accepts everything *)
Definition nf (w : wst) : Prop := d_fault (w_dest w) = None.
Definition view (w : wst) : bytes := put_at (d_bytes (w_dest w)) (d_cur (w_dest w)) (w_buf w).
Definition lcur (w : wst) : N := d_cur (w_dest w) + len (w_buf w).
Definition good (w : wst) : Prop :=
  nf w /\ w_err w = false /\ d_cur (w_dest w) <= len (d_bytes (w_dest w)) /\ len (w_buf w) <= w_size w.
Definition same_cfg (w w' : wst) : Prop :=
  w_kind w' = w_kind w /\ w_size w' = w_size w /\ w_n w' = w_n w /\ w_hpos w' = w_hpos w.
Lemma same_cfg_refl w : same_cfg w w. Proof. repeat split. Qed.
Lemma same_cfg_trans a b c : same_cfg a b -> same_cfg b c -> same_cfg a c.
Proof. intros (A1&A2&A3&A4) (B1&B2&B3&B4). unfold same_cfg. rewrite B1, B2, B3, B4. auto. Qed.

Lemma lcur_le_view w : d_cur (w_dest w) <= len (d_bytes (w_dest w)) -> lcur w <= len (view w).
Proof. intros H. unfold lcur, view. rewrite len_put_at by exact H. lia. Qed.

Lemma u_write_nf d p : d_fault d = None ->
  u_write d p = (len p, false, mkdest (put_at (d_bytes d) (d_cur d) p) (d_cur d + len p) (d_ops d + 1) None).
Proof. intros H. unfold u_write, fails. rewrite H. reflexivity. Qed.

(* what a step must preserve / establish *)
Definition wrote (w w' : wst) (p : bytes) : Prop :=
  good w' /\ view w' = put_at (view w) (lcur w) p /\ lcur w' = lcur w + len p /\ same_cfg w w'.

Lemma wrote_nil w : good w -> wrote w w [].
Proof.
  intros G. unfold wrote. split; [exact G|]. split.
  { symmetry. apply put_at_nil. apply lcur_le_view. apply G. }
  split; [unfold len; cbn; lia|apply same_cfg_refl].
Qed.
Lemma wrote_trans w1 w2 w3 a b : good w1 -> wrote w1 w2 a -> wrote w2 w3 b -> wrote w1 w3 (a ++ b).
Proof.
  intros G (G2 & V2 & L2 & C2) (G3 & V3 & L3 & C3). unfold wrote. split; [exact G3|]. split.
  { rewrite V3, V2, L2. apply put_at_put_at. apply lcur_le_view. apply G. }
  split; [rewrite L3, L2, len_app''; lia|eapply same_cfg_trans; eassumption].
Qed.

Lemma b_flush_good w : good w -> exists w', b_flush w = (false, w') /\ wrote w w' [] /\ w_buf w' = [].
Proof.
  intros G. pose proof G as (G1 & G2 & G3 & G4). unfold b_flush. rewrite G2.
  destruct (w_buf w) as [|x r] eqn:Eb.
  - exists w. split; [reflexivity|]. split; [apply wrote_nil; exact G|exact Eb].
  - rewrite (u_write_nf _ _ G1). eexists. split; [reflexivity|]. split; [|reflexivity].
    assert (Hlen : d_cur (w_dest w) + len (x :: r) <= len (put_at (d_bytes (w_dest w)) (d_cur (w_dest w)) (x :: r))) by (rewrite len_put_at by exact G3; lia).
    split; [|split; [|split; [|repeat split]]].
    + unfold good, nf. cbn. repeat split; try reflexivity; [exact Hlen|unfold len; cbn; lia].
    + unfold view, lcur. cbn [w_dest w_buf set_buf d_bytes d_cur]. rewrite Eb.
      rewrite (put_at_nil _ _ Hlen). first [reflexivity | rewrite put_at_nil; [reflexivity|]; rewrite len_put_at by exact G3; lia].
    + unfold lcur. cbn [w_dest w_buf set_buf d_cur]. rewrite Eb. unfold len. cbn. lia.
Qed.

Definition nb (w : wst) : nat := match w_buf w with [] => 0 | _ => 1 end.

Lemma b_write_loop_good : forall fuel w p nn, good w -> (2 * length p + nb w < fuel)%nat ->
  exists w', b_write_loop fuel w p nn = (nn + len p, false, w') /\ wrote w w' p.
Proof.
  induction fuel as [|fuel IH]; intros w p nn G Hf; [lia|].
  pose proof G as (G1 & G2 & G3 & G4). cbn [b_write_loop]. rewrite G2. cbn [negb]. rewrite andb_true_r.
  destruct (w_size w - len (w_buf w) <? len p) eqn:Elt.
  - destruct (w_buf w) as [|x r] eqn:Eb.
    + (* large write, empty buffer: straight to the destination *)
      rewrite (u_write_nf _ _ G1).
      set (w1 := set_buf w [] false (mkdest (put_at (d_bytes (w_dest w)) (d_cur (w_dest w)) p) (d_cur (w_dest w) + len p) (d_ops (w_dest w) + 1) None)).
      assert (Hlen : d_cur (w_dest w) + len p <= len (put_at (d_bytes (w_dest w)) (d_cur (w_dest w)) p)) by (rewrite len_put_at by exact G3; lia).
      assert (W1 : wrote w w1 p).
      { split; [|split; [|split; [|repeat split]]].
        - unfold good, nf, w1. cbn. repeat split; try reflexivity; [exact Hlen|unfold len; cbn; lia].
        - unfold view, lcur, w1. cbn [w_dest w_buf set_buf d_bytes d_cur]. rewrite Eb. change (len (@nil N)) with 0. rewrite N.add_0_r.
          rewrite put_at_nil by exact Hlen. rewrite put_at_nil by exact G3. reflexivity.
        - unfold lcur, w1. cbn [w_dest w_buf set_buf d_cur]. rewrite Eb. change (len (@nil N)) with 0. lia. }
      assert (Hdrop : drop (len p) p = []) by (unfold drop, len; rewrite Nat2N.id; apply skipn_all).
      rewrite Hdrop. destruct (IH w1 [] (nn + len p) (proj1 W1)) as (w2 & E2 & W2).
      { unfold nb, w1. cbn. unfold nb in Hf. rewrite Eb in Hf. cbn in Hf. assert (0 < length p)%nat by (unfold len in Elt; lia). lia. }
      exists w2. split; [rewrite E2; f_equal; f_equal; unfold len; cbn; lia|].
      rewrite <- (app_nil_r p). eapply wrote_trans; [exact G|exact W1|exact W2].
    + (* fill the buffer, flush, go on with the rest *)
      set (avail := w_size w - len (x :: r)) in *.
      set (w1 := set_buf w ((x :: r) ++ take avail p) false (w_dest w)).
      assert (Hav : avail < len p) by lia.
      assert (G1' : good w1).
      { unfold good, nf, w1. cbn [w_dest w_buf w_err w_size set_buf]. repeat split; try assumption. rewrite len_app'', len_take by lia. unfold avail. try rewrite Eb in G4. lia. }
      assert (W1 : wrote w w1 (take avail p)).
      { split; [exact G1'|]. split; [|split; [|repeat split]].
        - unfold view, lcur, w1. cbn [w_dest w_buf set_buf]. rewrite Eb. symmetry. apply put_at_put_at. exact G3.
        - unfold lcur, w1. cbn [w_dest w_buf set_buf]. rewrite Eb, len_app''. lia. }
      destruct (b_flush_good w1 G1') as (w2 & E2 & W2 & B2). rewrite E2.
      destruct (IH w2 (drop avail p) (nn + avail) (proj1 W2)) as (w3 & E3 & W3).
      { unfold nb. rewrite B2. unfold drop. rewrite skipn_length. unfold nb in Hf. rewrite Eb in Hf. unfold len in Hav.
        assert (avail = 0 \/ 0 < avail) by lia. cbn in Hf. lia. }
      exists w3. split.
      * rewrite E3. f_equal. f_equal. rewrite len_drop. lia.
      * assert (Hp : (take avail p ++ []) ++ drop avail p = p) by (rewrite app_nil_r; unfold take, drop; apply firstn_skipn).
        assert (Wall : wrote w w3 ((take avail p ++ []) ++ drop avail p)).
        { eapply wrote_trans; [exact G| |exact W3]. eapply wrote_trans; [exact G|exact W1|exact W2]. }
        rewrite Hp in Wall. exact Wall.
  - (* fits into the buffer *)
    eexists. split; [reflexivity|]. split; [|split; [|split; [|repeat split]]].
    + unfold good, nf. cbn [w_dest w_buf w_err w_size set_buf]. repeat split; try assumption. rewrite len_app''. lia.
    + unfold view, lcur. cbn [w_dest w_buf set_buf]. symmetry. apply put_at_put_at. exact G3.
    + unfold lcur. cbn [w_dest w_buf set_buf]. rewrite len_app''. lia.
Qed.

(* ---- e.w level *)
Definition ewrote (w w' : wst) (p : bytes) : Prop :=
  good w' /\ view w' = put_at (view w) (lcur w) p /\ lcur w' = lcur w + len p
  /\ w_kind w' = w_kind w /\ w_size w' = w_size w /\ w_hpos w' = w_hpos w.

Lemma good_unbuffered w : good w -> w_size w = 0 -> w_buf w = [].
Proof. intros (_ & _ & _ & G4) Hs. rewrite Hs in G4. destruct (w_buf w); [reflexivity|unfold len in G4; cbn in G4; lia]. Qed.

Lemma ew_write_good w p : good w -> exists w', ew_write w p = (len p, false, w') /\ wrote w w' p.
Proof.
  intros G. unfold ew_write. destruct (w_size w =? 0) eqn:Es.
  - apply N.eqb_eq in Es. pose proof (good_unbuffered w G Es) as Hb. pose proof G as (G1 & G2 & G3 & G4).
    rewrite (u_write_nf _ _ G1). eexists. split; [reflexivity|].
    assert (Hlen : d_cur (w_dest w) + len p <= len (put_at (d_bytes (w_dest w)) (d_cur (w_dest w)) p)) by (rewrite len_put_at by exact G3; lia).
    unfold wrote. split; [|split; [|split; [|repeat split]]].
    + unfold good, nf. cbn [w_dest w_buf w_err w_size set_dest d_fault d_cur d_bytes]. rewrite Hb.
      split; [reflexivity|]. split; [exact G2|]. split; [exact Hlen|]. rewrite Es. unfold len. cbn. lia.
    + unfold view, lcur. cbn [w_dest w_buf set_dest d_bytes d_cur]. rewrite Hb. change (len (@nil N)) with 0. rewrite N.add_0_r.
      rewrite (put_at_nil _ _ Hlen), (put_at_nil _ _ G3). reflexivity.
    + unfold lcur. cbn [w_dest w_buf set_dest d_cur]. rewrite Hb. change (len (@nil N)) with 0. lia.
  - unfold b_write. apply b_write_loop_good with (nn := 0); [exact G|]. unfold nb. destruct (w_buf w); lia.
Qed.

Lemma ew_flush_good w : good w -> exists w', ew_flush w = (false, w') /\ wrote w w' [] /\ w_buf w' = [].
Proof.
  intros G. unfold ew_flush. destruct (w_size w =? 0) eqn:Es.
  - apply N.eqb_eq in Es. exists w. split; [reflexivity|]. split; [apply wrote_nil; exact G|apply good_unbuffered; assumption].
  - apply b_flush_good. exact G.
Qed.

(* the encoder's view: everything written so far by this encoder, cursor at the end *)
(* [base] = what the destination held before this encoder started writing (its e.n counts from there) *)
Definition tidyb (base : N) (w : wst) : Prop := good w /\ lcur w = base + w_n w /\ len (view w) = base + w_n w.
Definition tidy (w : wst) : Prop := tidyb 0 w.

Lemma put_at_len_end bs p : put_at bs (len bs) p = bs ++ p. Proof. apply put_at_end. Qed.

Lemma e_write_tidy b w p : tidyb b w -> exists w', e_write w p = (false, w') /\ tidyb b w' /\ view w' = view w ++ p
  /\ w_kind w' = w_kind w /\ w_size w' = w_size w /\ w_hpos w' = w_hpos w /\ w_n w' = w_n w + len p.
Proof.
  intros (G & L & V). unfold e_write. destruct (ew_write_good w p G) as (w1 & E1 & (G1 & V1 & L1 & (K1 & S1 & N1 & H1))).
  rewrite E1. eexists. split; [reflexivity|].
  assert (Hv : view w1 = view w ++ p) by (rewrite V1, L, <- V; apply put_at_end).
  unfold tidyb, good, nf, view, lcur in *. cbn [w_dest w_buf w_err w_size w_n w_kind w_hpos set_n].
  repeat split; try apply G1; try assumption; try lia.
  - rewrite Hv, len_app''. lia.
Qed.

Lemma e_writes_tidy b : forall ps w, tidyb b w -> exists w', e_writes w ps = (false, w') /\ tidyb b w' /\ view w' = view w ++ concat ps
  /\ w_kind w' = w_kind w /\ w_size w' = w_size w /\ w_hpos w' = w_hpos w /\ w_n w' = w_n w + len (concat ps).
Proof.
  induction ps as [|p ps IH]; intros w T; cbn [e_writes concat].
  - exists w. rewrite app_nil_r. change (len (@nil N)) with 0. repeat split; try assumption; try apply T; lia.
  - destruct (e_write_tidy b w p T) as (w1 & E1 & T1 & V1 & K1 & S1 & H1 & N1). rewrite E1.
    destruct (IH w1 T1) as (w2 & E2 & T2 & V2 & K2 & S2 & H2 & N2). exists w2. split; [exact E2|]. split; [exact T2|].
    split; [rewrite V2, V1, app_assoc; reflexivity|]. rewrite K2, S2, H2, N2, K1, S1, H1, N1, len_app''. repeat split; lia.
Qed.

(* ---- seeking and writing at an offset *)
Lemma view_flushed w : w_buf w = [] -> d_cur (w_dest w) <= len (d_bytes (w_dest w)) -> view w = d_bytes (w_dest w) /\ lcur w = d_cur (w_dest w).
Proof. intros Hb Hc. unfold view, lcur. rewrite Hb. change (len (@nil N)) with 0. rewrite N.add_0_r, put_at_nil by exact Hc. auto. Qed.

Lemma ew_seek_good w off : good w -> (0 <= Z.of_N (lcur w) + off <= Z.of_N (len (view w)))%Z ->
  exists w', ew_seek w off = (false, w') /\ good w' /\ view w' = view w /\ lcur w' = Z.to_N (Z.of_N (lcur w) + off)
    /\ w_buf w' = [] /\ same_cfg w w'.
Proof.
  intros G Hoff. unfold ew_seek. destruct (ew_flush_good w G) as (w1 & E1 & (G1 & V1 & L1 & C1) & B1). rewrite E1.
  pose proof G1 as (F1 & F2 & F3 & F4).
  unfold u_seek, fails. rewrite F1.
  destruct (view_flushed w1 B1 F3) as [Hv Hl].
  assert (Hv0 : view w1 = view w) by (rewrite V1; apply put_at_nil; apply lcur_le_view; apply G).
  assert (Hl0 : lcur w1 = lcur w) by (rewrite L1; change (len (@nil N)) with 0; lia).
  eexists. split; [reflexivity|].
  set (c' := Z.to_N (Z.of_N (d_cur (w_dest w1)) + off)).
  assert (Hc' : c' <= len (d_bytes (w_dest w1))) by (unfold c'; rewrite <- Hl, <- Hv, Hl0, Hv0; lia).
  split; [|split; [|split; [|split; [|]]]].
  - unfold good, nf. cbn [w_dest w_buf w_err w_size set_dest d_fault d_cur d_bytes]. repeat split; try assumption.
  - unfold view. cbn [w_dest w_buf set_dest d_bytes d_cur]. rewrite B1, put_at_nil by exact Hc'. rewrite <- Hv. exact Hv0.
  - unfold lcur. cbn [w_dest w_buf set_dest d_cur]. rewrite B1. change (len (@nil N)) with 0. rewrite N.add_0_r. unfold c'. rewrite <- Hl, Hl0. reflexivity.
  - cbn [w_buf set_dest]. exact B1.
  - destruct C1 as (A1 & A2 & A3 & A4). unfold same_cfg. cbn [w_kind w_size w_n w_hpos set_dest]. auto.
Qed.

Lemma ew_writeat_good w p off : good w -> off + len p <= len (view w) ->
  exists w', ew_writeat w p off = (false, w') /\ good w' /\ view w' = put_at (view w) off p /\ lcur w' = lcur w /\ w_buf w' = [] /\ same_cfg w w'.
Proof.
  intros G Hoff. unfold ew_writeat. destruct (ew_flush_good w G) as (w1 & E1 & (G1 & V1 & L1 & C1) & B1). rewrite E1.
  pose proof G1 as (F1 & F2 & F3 & F4).
  unfold u_writeat, fails. rewrite F1.
  destruct (view_flushed w1 B1 F3) as [Hv Hl].
  assert (Hv0 : view w1 = view w) by (rewrite V1; apply put_at_nil; apply lcur_le_view; apply G).
  assert (Hl0 : lcur w1 = lcur w) by (rewrite L1; change (len (@nil N)) with 0; lia).
  eexists. split; [reflexivity|].
  assert (Hlen : len (put_at (d_bytes (w_dest w1)) off p) = len (d_bytes (w_dest w1))).
  { rewrite len_put_at by (rewrite <- Hv, Hv0; lia). rewrite <- Hv, Hv0. lia. }
  split; [|split; [|split; [|split; [|]]]].
  - unfold good, nf. cbn [w_dest w_buf w_err w_size set_dest d_fault d_cur d_bytes]. repeat split; try assumption. rewrite Hlen. exact F3.
  - unfold view. cbn [w_dest w_buf set_dest d_bytes d_cur]. rewrite B1, put_at_nil by (rewrite Hlen; exact F3). rewrite <- Hv, Hv0. reflexivity.
  - unfold lcur. cbn [w_dest w_buf set_dest d_cur]. rewrite B1. change (len (@nil N)) with 0. rewrite N.add_0_r, <- Hl, Hl0. reflexivity.
  - cbn [w_buf set_dest]. exact B1.
  - destruct C1 as (A1 & A2 & A3 & A4). unfold same_cfg. cbn [w_kind w_size w_n w_hpos set_dest]. auto.
Qed.

(* overwriting the header region of prefix ++ old ++ rest with a header of the same length *)
Lemma put_at_replace pre old new rest : len old = len new -> put_at (pre ++ old ++ rest) (len pre) new = pre ++ new ++ rest.
Proof.
  intros H. unfold put_at. rewrite (take_app_l (len pre)) by reflexivity. f_equal. f_equal.
  rewrite <- (drop_drop (len new) (len pre)). rewrite (drop_app_l (len pre)) by reflexivity.
  apply drop_app_l. symmetry. exact H.
Qed.

(* ---- one Encode call *)
Definition parts_ok (p : eparts) : Prop :=
  (forall ds, len (p_hprov p ds) = len (p_hfinal p)) /\ p_hprov p (p_datasize p) = p_hfinal p.
Definition sequence_bytes (p : eparts) : bytes := p_hfinal p ++ concat (p_chunks p) ++ p_crc p.

Lemma tidy_flush b w : tidyb b w -> exists w', ew_flush w = (false, w') /\ tidyb b w' /\ view w' = view w /\ w_buf w' = []
  /\ w_kind w' = w_kind w /\ w_size w' = w_size w /\ w_n w' = w_n w.
Proof.
  intros (G & L & V). destruct (ew_flush_good w G) as (w1 & E1 & (G1 & V1 & L1 & (K1 & S1 & N1 & H1)) & B1).
  exists w1. split; [exact E1|].
  assert (Hv : view w1 = view w) by (rewrite V1; apply put_at_nil; apply lcur_le_view; apply G).
  assert (Hl : lcur w1 = lcur w) by (rewrite L1; change (len (@nil N)) with 0; lia).
  unfold tidyb. rewrite Hv, Hl, N1. repeat split; try assumption; try apply G1.
Qed.

Lemma update_header_tidy b w S hold rest hnew : tidyb b w -> (ew_seeker w || ew_writerat w = true)%bool -> (ew_seeker w = true \/ b = 0) ->
  view w = S ++ hold ++ rest -> b + w_hpos w = len S -> len hold = len hnew ->
  exists w', update_header w hnew = (false, w') /\ tidyb b w' /\ view w' = S ++ hnew ++ rest
    /\ w_kind w' = w_kind w /\ w_size w' = w_size w /\ w_n w' = w_n w.
Proof.
  intros (G & L & V) Hcap Hbase Hview Hpos Hlen. unfold update_header.
  assert (Htot : b + w_n w = len S + len hold + len rest) by (rewrite <- V, Hview, !len_app''; lia).
  destruct (ew_seeker w) eqn:Esk.
  - (* Seek back, Write, Seek forward *)
    set (size := w_n w - w_hpos w).
    destruct (ew_seek_good w (- Z.of_N size) G) as (w1 & E1 & G1 & V1 & L1 & B1 & (K1 & S1 & N1 & H1)).
    { rewrite L, V. unfold size. lia. }
    rewrite E1.
    assert (Hl1 : lcur w1 = len S) by (rewrite L1, L; unfold size; lia).
    destruct (ew_write_good w1 hnew G1) as (w2 & E2 & (G2 & V2 & L2 & (K2 & S2 & N2 & H2))). rewrite E2.
    assert (Hv2 : view w2 = S ++ hnew ++ rest) by (rewrite V2, V1, Hview, Hl1; apply put_at_replace; exact Hlen).
    destruct (ew_seek_good w2 (Z.of_N size - Z.of_N (len hnew)) G2) as (w3 & E3 & G3 & V3 & L3 & B3 & (K3 & S3 & N3 & H3)).
    { rewrite L2, Hl1, Hv2, !len_app''. unfold size. lia. }
    exists w3. split; [exact E3|]. unfold tidyb. rewrite V3, L3, L2, Hl1, Hv2, N3, N2, N1, K3, K2, K1, S3, S2, S1.
    repeat split; try assumption; try apply G3; rewrite ?len_app''; unfold size; lia.
  - cbn [orb] in Hcap. rewrite Hcap. destruct Hbase as [Habs|Hb0]; [discriminate Habs|]. subst b. rewrite N.add_0_l in *.
    destruct (ew_writeat_good w hnew (w_hpos w) G) as (w1 & E1 & G1 & V1 & L1 & B1 & (K1 & S1 & N1 & H1)).
    { rewrite V. lia. }
    exists w1. split; [exact E1|].
    assert (Hv1 : view w1 = S ++ hnew ++ rest) by (rewrite V1, Hview, Hpos; apply put_at_replace; exact Hlen).
    unfold tidyb. rewrite L1, Hv1, N1, K1, S1, N.add_0_l. repeat split; try assumption; try apply G1. rewrite !len_app''. lia.
Qed.

Definition base_ok (b : N) (w : wst) : Prop := ew_seeker w = true \/ b = 0 \/ (ew_seeker w || ew_writerat w)%bool = false.

Theorem encode_one_spec_b b w p ds : tidyb b w -> parts_ok p -> base_ok b w ->
  exists w', encode_one w p ds = (false, w') /\ tidyb b w' /\ w_buf w' = [] /\ view w' = view w ++ sequence_bytes p
    /\ w_kind w' = w_kind w /\ w_size w' = w_size w.
Proof.
  intros T [Hlen Hsame] Hbase. unfold encode_one.
  set (w0 := set_n w (w_n w) (w_n w)).
  assert (T0 : tidyb b w0) by (destruct T as (G & L & V); unfold tidyb, good, nf, view, lcur, w0 in *; cbn; auto).
  assert (Hk0 : ew_seeker w0 = ew_seeker w /\ ew_writerat w0 = ew_writerat w) by (split; reflexivity).
  assert (Hv0 : view w0 = view w) by reflexivity.
  assert (Hp0 : b + w_hpos w0 = len (view w)) by (destruct T as (_ & _ & V); unfold w0; cbn; lia).
  destruct (ew_seeker w0 || ew_writerat w0)%bool eqn:Edir.
  - destruct (e_writes_tidy b (p_hprov p ds :: p_chunks p ++ [p_crc p]) w0 T0) as (w1 & E1 & T1 & V1 & K1 & S1 & H1 & N1).
    rewrite E1.
    assert (Hv1 : view w1 = view w ++ p_hprov p ds ++ (concat (p_chunks p) ++ p_crc p)).
    { rewrite V1, Hv0. cbn [concat]. rewrite concat_app. cbn [concat]. rewrite app_nil_r. reflexivity. }
    destruct (ds =? p_datasize p) eqn:Eds.
    + apply N.eqb_eq in Eds. subst ds. rewrite Hsame in Hv1.
      destruct (tidy_flush b w1 T1) as (w2 & E2 & T2 & V2 & B2 & K2 & S2 & N2). rewrite E2.
      exists w2. repeat split; try apply T2; try assumption; [rewrite V2, Hv1; reflexivity|rewrite K2, K1; reflexivity|rewrite S2, S1; reflexivity].
    + destruct (update_header_tidy b w1 (view w) (p_hprov p ds) (concat (p_chunks p) ++ p_crc p) (p_hfinal p) T1) as (w2 & E2 & T2 & V2 & K2 & S2 & N2).
      { unfold ew_seeker, ew_writerat in *. rewrite K1, S1. exact Edir. }
      { destruct Hbase as [Hs|[Hz|Hn]]; [left; unfold ew_seeker in *; rewrite K1; exact Hs|right; exact Hz|]. exfalso. destruct Hk0 as [A0 B0]. rewrite A0, B0, Hn in Edir. discriminate Edir. }
      { exact Hv1. } { rewrite H1. exact Hp0. } { apply Hlen. }
      rewrite E2. destruct (tidy_flush b w2 T2) as (w3 & E3 & T3 & V3 & B3 & K3 & S3 & N3). rewrite E3.
      exists w3. repeat split; try apply T3; try assumption; [rewrite V3, V2; reflexivity|rewrite K3, K2, K1; reflexivity|rewrite S3, S2, S1; reflexivity].
  - destruct (e_writes_tidy b (p_hfinal p :: p_chunks p ++ [p_crc p]) w0 T0) as (w1 & E1 & T1 & V1 & K1 & S1 & H1 & N1).
    rewrite E1. destruct (tidy_flush b w1 T1) as (w2 & E2 & T2 & V2 & B2 & K2 & S2 & N2). rewrite E2.
    exists w2. repeat split; try apply T2; try assumption; [|rewrite K2, K1; reflexivity|rewrite S2, S1; reflexivity].
    rewrite V2, V1, Hv0. cbn [concat]. rewrite concat_app. cbn [concat]. rewrite app_nil_r. reflexivity.
Qed.

(* ---- one stream sequence (WriteMessage ..., SequenceCompleted) *)
Theorem stream_one_spec_b b w p prev : tidyb b w -> parts_ok p -> (ew_seeker w || ew_writerat w = true)%bool -> base_ok b w ->
  exists w', stream_one w p prev = (false, w') /\ tidyb b w' /\ w_buf w' = [] /\ view w' = view w ++ sequence_bytes p
    /\ w_kind w' = w_kind w /\ w_size w' = w_size w.
Proof.
  intros T [Hlen Hsame] Hcap Hbase. unfold stream_one.
  set (w0 := set_n w (w_n w) (w_n w)).
  assert (T0 : tidyb b w0) by (destruct T as (G & L & V); unfold tidyb, good, nf, view, lcur, w0 in *; cbn; auto).
  assert (Hv0 : view w0 = view w) by reflexivity.
  assert (Hp0 : b + w_hpos w0 = len (view w)) by (destruct T as (_ & _ & V); unfold w0; cbn; lia).
  destruct (e_writes_tidy b (p_hprov p prev :: p_chunks p) w0 T0) as (w1 & E1 & T1 & V1 & K1 & S1 & H1 & N1). rewrite E1.
  destruct (e_write_tidy b w1 (p_crc p) T1) as (w2 & E2 & T2 & V2 & K2 & S2 & H2 & N2). rewrite E2.
  assert (Hv2 : view w2 = view w ++ p_hprov p prev ++ (concat (p_chunks p) ++ p_crc p)).
  { rewrite V2, V1, Hv0. cbn [concat]. rewrite <- !app_assoc. reflexivity. }
  destruct (prev =? p_datasize p) eqn:Eds.
  - apply N.eqb_eq in Eds. subst prev. rewrite Hsame in Hv2.
    destruct (tidy_flush b w2 T2) as (w3 & E3 & T3 & V3 & B3 & K3 & S3 & N3). rewrite E3.
    exists w3. repeat split; try apply T3; try assumption; [rewrite V3, Hv2; reflexivity|rewrite K3, K2, K1; reflexivity|rewrite S3, S2, S1; reflexivity].
  - destruct (update_header_tidy b w2 (view w) (p_hprov p prev) (concat (p_chunks p) ++ p_crc p) (p_hfinal p) T2) as (w3 & E3 & T3 & V3 & K3 & S3 & N3).
    { unfold ew_seeker, ew_writerat in *. rewrite K2, K1, S2, S1. exact Hcap. }
    { destruct Hbase as [Hs|[Hz|Hn]]; [left; unfold ew_seeker in *; rewrite K2, K1; exact Hs|right; exact Hz|]. exfalso. rewrite Hn in Hcap. discriminate Hcap. }
    { exact Hv2. } { rewrite H2, H1. exact Hp0. } { apply Hlen. }
    rewrite E3. destruct (tidy_flush b w3 T3) as (w4 & E4 & T4 & V4 & B4 & K4 & S4 & N4). rewrite E4.
    exists w4. repeat split; try apply T4; try assumption; [rewrite V4, V3; reflexivity|rewrite K4, K3, K2, K1; reflexivity|rewrite S4, S3, S2, S1; reflexivity].
Qed.

(* ---- chains *)
Lemma final_is_view b w : tidyb b w -> w_buf w = [] -> final_bytes w = view w.
Proof. intros (G & _) Hb. unfold final_bytes. symmetry. apply view_flushed; [exact Hb|apply G]. Qed.

Theorem encode_chain_spec_b b : forall ps w acc, tidyb b w -> w_buf w = [] -> base_ok b w -> Forall (fun x => parts_ok (fst x)) ps ->
  exists w', encode_chain w ps acc = (rev acc ++ repeat false (length ps), w') /\ tidyb b w' /\ w_buf w' = []
    /\ final_bytes w' = final_bytes w ++ concat (map (fun x => sequence_bytes (fst x)) ps).
Proof.
  induction ps as [|[p ds] ps IH]; intros w acc T B Hb Hok; cbn [encode_chain map concat length repeat].
  - exists w. rewrite !app_nil_r. auto.
  - inversion Hok as [|? ? Hp Hrest]; subst. cbn [fst] in Hp.
    destruct (encode_one_spec_b b w p ds T Hp Hb) as (w1 & E1 & T1 & B1 & V1 & K1 & S1). rewrite E1.
    destruct (IH w1 (false :: acc) T1 B1) as (w2 & E2 & T2 & B2 & F2); [unfold base_ok, ew_seeker, ew_writerat in *; rewrite K1, S1; exact Hb|exact Hrest|]. exists w2.
    split; [rewrite E2; cbn [rev]; rewrite <- app_assoc; reflexivity|]. split; [exact T2|]. split; [exact B2|].
    rewrite F2, (final_is_view b w1 T1 B1), V1, (final_is_view b w T B). cbn [fst]. rewrite <- app_assoc. reflexivity.
Qed.

Theorem stream_chain_spec_b b : forall ps w prev acc, tidyb b w -> w_buf w = [] -> Forall parts_ok ps -> (ew_seeker w || ew_writerat w = true)%bool ->
  base_ok b w ->
  exists w', stream_chain w ps prev acc = (rev acc ++ repeat false (length ps), w') /\ tidyb b w' /\ w_buf w' = []
    /\ final_bytes w' = final_bytes w ++ concat (map sequence_bytes ps).
Proof.
  induction ps as [|p ps IH]; intros w prev acc T B Hok Hcap Hb; cbn [stream_chain map concat length repeat].
  - exists w. rewrite !app_nil_r. auto.
  - inversion Hok as [|? ? Hp Hrest]; subst.
    destruct (stream_one_spec_b b w p prev T Hp Hcap Hb) as (w1 & E1 & T1 & B1 & V1 & K1 & S1). rewrite E1.
    destruct (IH w1 (p_datasize p) (false :: acc) T1 B1 Hrest) as (w2 & E2 & T2 & B2 & F2).
    { unfold ew_seeker, ew_writerat in *. rewrite K1, S1. exact Hcap. }
    { unfold base_ok, ew_seeker, ew_writerat in *. rewrite K1, S1. exact Hb. }
    exists w2. split; [rewrite E2; cbn [rev]; rewrite <- app_assoc; reflexivity|]. split; [exact T2|]. split; [exact B2|].
    rewrite F2, (final_is_view b w1 T1 B1), V1, (final_is_view b w T B). rewrite <- app_assoc. reflexivity.
Qed.

(* the statements for an encoder that started on an empty destination (base 0) *)
Lemma base_ok_0 w : base_ok 0 w. Proof. right. left. reflexivity. Qed.
Theorem encode_one_spec w p ds : tidy w -> parts_ok p ->
  exists w', encode_one w p ds = (false, w') /\ tidy w' /\ w_buf w' = [] /\ view w' = view w ++ sequence_bytes p
    /\ w_kind w' = w_kind w /\ w_size w' = w_size w.
Proof. intros T Hp. apply (encode_one_spec_b 0 w p ds T Hp). apply base_ok_0. Qed.
Theorem stream_one_spec w p prev : tidy w -> parts_ok p -> (ew_seeker w || ew_writerat w = true)%bool ->
  exists w', stream_one w p prev = (false, w') /\ tidy w' /\ w_buf w' = [] /\ view w' = view w ++ sequence_bytes p
    /\ w_kind w' = w_kind w /\ w_size w' = w_size w.
Proof. intros T Hp Hc. apply (stream_one_spec_b 0 w p prev T Hp Hc). apply base_ok_0. Qed.
Theorem encode_chain_spec : forall ps w acc, tidy w -> w_buf w = [] -> Forall (fun x => parts_ok (fst x)) ps ->
  exists w', encode_chain w ps acc = (rev acc ++ repeat false (length ps), w') /\ tidy w' /\ w_buf w' = []
    /\ final_bytes w' = final_bytes w ++ concat (map (fun x => sequence_bytes (fst x)) ps).
Proof. intros ps w acc T B Hok. apply (encode_chain_spec_b 0 ps w acc T B); [apply base_ok_0|exact Hok]. Qed.
Theorem stream_chain_spec : forall ps w prev acc, tidy w -> w_buf w = [] -> Forall parts_ok ps -> (ew_seeker w || ew_writerat w = true)%bool ->
  exists w', stream_chain w ps prev acc = (rev acc ++ repeat false (length ps), w') /\ tidy w' /\ w_buf w' = []
    /\ final_bytes w' = final_bytes w ++ concat (map sequence_bytes ps).
Proof. intros ps w prev acc T B Hok Hc. apply (stream_chain_spec_b 0 ps w prev acc T B Hok Hc). apply base_ok_0. Qed.

Lemma wst_new_tidyb k size pre : tidyb (len pre) (wst_new k size pre None) /\ w_buf (wst_new k size pre None) = [] /\ final_bytes (wst_new k size pre None) = pre.
Proof.
  unfold wst_new, tidyb, good, nf, view, lcur, final_bytes, dest_new. cbn [w_dest w_buf w_err w_size w_n d_bytes d_cur d_fault].
  change (len (@nil N)) with 0. rewrite put_at_nil by lia. repeat split; try reflexivity; try lia.
Qed.
Lemma wst_new_tidy k size : tidy (wst_new k size [] None) /\ w_buf (wst_new k size [] None) = [] /\ final_bytes (wst_new k size [] None) = [].
Proof. exact (wst_new_tidyb k size []). Qed.

(* C09, destination that already holds bytes (cursor at their end) when a fresh encoder starts on it: plain writers and
   everything that can seek append exactly the sequences and leave the earlier bytes untouched.  A destination that can only
   WriteAt is addressed by absolute offsets counted from where the encoder started, so it is excluded. *)
Definition appends_safely (k : wkind) : bool := match k with KWriterAt => false | _ => true end.
Lemma appends_safely_base k size pre : appends_safely k = true -> base_ok (len pre) (wst_new k size pre None).
Proof.
  unfold base_ok, ew_seeker, ew_writerat, wst_new. cbn [w_kind w_size]. destruct k; cbn; intros H; try discriminate; auto.
  right. right. destruct (size <=? 0)%Z; cbn; try reflexivity. destruct (Z.to_N size =? 0); reflexivity.
Qed.
Theorem batch_appends_to_earlier_content k size pre (ps : list (eparts * N)) : appends_safely k = true -> Forall (fun x => parts_ok (fst x)) ps ->
  exists w', encode_chain (wst_new k size pre None) ps [] = (repeat false (length ps), w')
    /\ final_bytes w' = pre ++ concat (map (fun x => sequence_bytes (fst x)) ps).
Proof.
  intros Hk Hok. destruct (wst_new_tidyb k size pre) as (T & B & F).
  destruct (encode_chain_spec_b (len pre) ps _ [] T B (appends_safely_base k size pre Hk) Hok) as (w' & E & _ & _ & Fin).
  exists w'. split; [exact E|]. rewrite Fin, F. reflexivity.
Qed.
Theorem stream_appends_to_earlier_content k size pre (ps : list eparts) : can_seek k = true -> Forall parts_ok ps ->
  exists w', stream_chain (wst_new k size pre None) ps 0 [] = (repeat false (length ps), w')
    /\ final_bytes w' = pre ++ concat (map sequence_bytes ps).
Proof.
  intros Hk Hok. destruct (wst_new_tidyb k size pre) as (T & B & F).
  destruct (stream_chain_spec_b (len pre) ps _ 0 [] T B Hok) as (w' & E & _ & _ & Fin).
  { unfold ew_seeker, wst_new. cbn [w_kind]. rewrite Hk. reflexivity. }
  { left. unfold ew_seeker, wst_new. cbn [w_kind]. exact Hk. }
  exists w'. split; [exact E|]. rewrite Fin, F. reflexivity.
Qed.

(* C09: whatever the destination kind, the write buffer size, and batch or stream -- the destination ends up holding the
   concatenation of the sequences, and no call reports an error *)
Theorem writer_kind_independent k size (ps : list (eparts * N)) : Forall (fun x => parts_ok (fst x)) ps ->
  exists w', encode_chain (wst_new k size [] None) ps [] = (repeat false (length ps), w')
    /\ final_bytes w' = concat (map (fun x => sequence_bytes (fst x)) ps).
Proof.
  intros Hok. destruct (wst_new_tidy k size) as (T & B & F).
  destruct (encode_chain_spec ps _ [] T B Hok) as (w' & E & _ & _ & Fin). exists w'. split; [exact E|]. rewrite Fin, F. reflexivity.
Qed.
Theorem stream_equals_batch k size (ps : list eparts) : Forall parts_ok ps -> (can_seek k || can_writeat k = true)%bool ->
  exists w', stream_chain (wst_new k size [] None) ps 0 [] = (repeat false (length ps), w')
    /\ final_bytes w' = concat (map sequence_bytes ps).
Proof.
  intros Hok Hcap. destruct (wst_new_tidy k size) as (T & B & F).
  destruct (stream_chain_spec ps _ 0 [] T B Hok) as (w' & E & _ & _ & Fin).
  { unfold ew_seeker, ew_writerat, wst_new. cbn [w_kind w_size]. destruct k; cbn in *; try discriminate; try reflexivity;
    destruct (size <=? 0)%Z; cbn; try reflexivity; destruct (Z.to_N size =? 0); reflexivity. }
  exists w'. split; [exact E|]. rewrite Fin, F. reflexivity.
Qed.

(* the parts computed by the encoder model are well-formed: provisional and final header have the same length and coincide
   when the caller's data size is already the right one *)
Lemma le_bytes_len' w x : length (le_bytes w x) = w.
Proof. revert x. induction w; intros; cbn [le_bytes length]; [reflexivity|]. f_equal. apply IHw. Qed.
Lemma header_bytes_len hs ver pv ds : (hs = 12 \/ hs = 14) -> len (header_bytes hs ver pv ds) = hs.
Proof.
  intros H. unfold header_bytes.
  assert (Hm : exists tail, marshal_header 12 ver pv ds 0 = 12 :: tail /\ length tail = 11%nat).
  { unfold marshal_header. cbn [N.leb app]. eexists. split; [reflexivity|].
    cbn [length]. rewrite !app_length, !le_bytes_len'. change DataTypeFIT with [46; 70; 73; 84]. reflexivity. }
  destruct Hm as (tail & -> & Ht). unfold len.
  destruct H as [-> | ->]; cbn [N.eqb Pos.eqb].
  - cbn [length]. rewrite Ht. reflexivity.
  - rewrite app_length, le_bytes_len'. cbn [length]. rewrite Ht. reflexivity.
Qed.
Theorem encode_parts_ok c f p : encode_parts c f = Ok p -> parts_ok p.
Proof.
  unfold encode_parts. destruct (ef_msgs f); [discriminate|]. unfold bind.
  destruct (proto_validate_all _ _); try discriminate. destruct (validate_all _ _ _ _); try discriminate.
  destruct (encode_chunks _ _ _ _) as [[chunks st]| | |]; try discriminate.
  intros H. injection H as <-. unfold parts_ok. cbn [p_hprov p_hfinal p_datasize]. split; [|reflexivity].
  intros ds. rewrite !header_bytes_len; [reflexivity| |]; destruct (ef_hsize f =? 12); auto.
Qed.

(* ---- the Write calls of Model/Encoder.encode_parts concatenate to the bytes of Model/Encoder.encode_fit (the model the
        byte-exact correspondence of C01/C02 runs), with the same failures *)
Definition omap {A B} (f : A -> B) (o : outcome A) : outcome B :=
  match o with Ok a => Ok (f a) | Err e => Err e | Panic p => Panic p | OutOfFuel => OutOfFuel end.
Lemma chunks_are_messages c : forall ms st acc,
  encode_messages c st ms (concat acc) = omap (fun x => (concat (fst x), snd x)) (encode_chunks c st ms acc).
Proof.
  induction ms as [|m ms IH]; intros st acc; cbn [encode_messages encode_chunks]; [reflexivity|].
  unfold encode_message, bind. destruct (encode_message_chunks c st m) as [[ch st1]| | |]; cbn [omap fst snd]; try reflexivity.
  rewrite <- IH. rewrite concat_app. reflexivity.
Qed.
#[local] Opaque write le_bytes marshal_header.
Theorem parts_are_fit c f : match encode_parts c f, encode_fit c f with
  | Ok p, Ok r => sequence_bytes p = er_bytes r
  | Err e, Err e' => e = e' | Panic a, Panic b => a = b | OutOfFuel, OutOfFuel => True
  | _, _ => False end.
Proof.
  unfold encode_parts, encode_fit. destruct (ef_msgs f) as [|m ms]; [reflexivity|]. unfold bind.
  destruct (proto_validate_all _ _); [|reflexivity|reflexivity|exact I].
  destruct (validate_all _ _ _ _) as [vms| | |]; [|reflexivity|reflexivity|exact I].
  pose proof (chunks_are_messages c vms (es_init c) (@nil bytes)) as H. cbn [concat] in H. rewrite H.
  destruct (encode_chunks c (es_init c) vms []) as [[chunks st]| | |]; cbv beta iota zeta delta [omap fst snd]; [|reflexivity|reflexivity|exact I].
  unfold sequence_bytes, header_bytes. cbn [p_hfinal p_chunks p_crc er_bytes].
  destruct (ef_hsize f =? 12); cbv beta iota; [change (12 =? 14) with false | change (14 =? 14) with true]; cbv beta iota; reflexivity.
Qed.
