(* C05, frame: component expansion leaves every field alone that is not a destination.  A destination number of a message is the
   number a component of some field (or sub-field) of that message in the profile expands into.  Whatever the values, the
   accumulator history and the sub-field substitutions chosen: a field of the decoded message whose number is no destination number
   is, after expansion, at the same position and identical (definition, value, marks). *)
From Coq Require Import NArith ZArith List Lia Bool.
Import ListNotations.
From Fit Require Import Model.Decoder Proofs.ExpandProofs.
Open Scope N_scope.

Section Frame.
Variable D : N -> Prop.                                        (* destination numbers *)
Variable mesgnum : N.
Definition comps_in (cs : list comp) : Prop := Forall (fun c => D (c_num c)) cs.
Definition fb_in (fb : fieldbase) : Prop := comps_in (fb_comps fb) /\ Forall (fun sf => comps_in (s_comps sf)) (fb_subs fb).
Hypothesis closed : forall n, D n -> fb_in (f_fb (create_field mesgnum n)).

(* fs' keeps the non-destination fields of fs in place, and all its field definitions stay inside D *)
Definition keeps_nd (fs fs' : list field) : Prop :=
  (forall j f, nth_opt fs j = Some f -> ~ D (f_num f) -> nth_opt fs' j = Some f) /\ (Forall (fun f => fb_in (f_fb f)) fs -> Forall (fun f => fb_in (f_fb f)) fs').

Lemma keeps_refl fs : keeps_nd fs fs. Proof. split; auto. Qed.
Lemma keeps_trans a b c : keeps_nd a b -> keeps_nd b c -> keeps_nd a c.
Proof. intros [A1 A2] [B1 B2]. split; [intros j f H Hn; apply B1; [apply A1; assumption|exact Hn]|auto]. Qed.

Lemma subst_in subs fs sf : Forall (fun sf => comps_in (s_comps sf)) subs -> subfield_substitution subs fs = Some sf -> comps_in (s_comps sf).
Proof.
  induction subs as [|x r IH]; intros H E; cbn [subfield_substitution] in E; [discriminate|]. inversion H; subst.
  destruct (existsb (map_matches fs) (s_maps x)); [injection E as <-; assumption|apply IH; assumption].
Qed.
Lemma chosen_in fb fs : fb_in fb -> comps_in (match subfield_substitution (fb_subs fb) fs with Some sf => s_comps sf | None => fb_comps fb end).
Proof. intros [H1 H2]. destruct (subfield_substitution (fb_subs fb) fs) as [sf|] eqn:E; [eapply subst_in; eassumption|exact H1]. Qed.

Lemma last_index_spec : forall fs num i found j, last_index fs num i found = Some j ->
  found = Some j \/ exists f, nth_opt fs (j - i) = Some f /\ f_num f = num /\ (i <= j)%nat.
Proof.
  induction fs as [|f fs IH]; intros num i found j H; cbn [last_index] in H; [left; exact H|].
  destruct (IH _ _ _ _ H) as [Hf|(g & Hg & Hn & Hl)].
  - destruct (f_num f =? num) eqn:E; [|left; exact Hf]. injection Hf as <-. right. exists f. rewrite Nat.sub_diag. split; [reflexivity|]. split; [apply N.eqb_eq; exact E|lia].
  - right. exists g. replace (j - i)%nat with (S (j - S i)) by lia. cbn [nth_opt]. split; [exact Hg|]. split; [exact Hn|lia].
Qed.

Lemma nth_opt_replace_other {A} (l : list A) : forall i j x, i <> j -> nth_opt (replace_nth l i x) j = nth_opt l j.
Proof. induction l as [|y l IH]; intros [|i] [|j] x H; cbn [replace_nth nth_opt]; try reflexivity; try congruence. apply IH. congruence. Qed.
Lemma nth_opt_app_l {A} (l r : list A) : forall j x, nth_opt l j = Some x -> nth_opt (l ++ r) j = Some x.
Proof. induction l as [|y l IH]; intros [|j] x H; cbn [nth_opt app] in *; try discriminate; auto. Qed.
Lemma Forall_replace {A} (P : A -> Prop) (l : list A) : forall i x, Forall P l -> P x -> Forall P (replace_nth l i x).
Proof. induction l as [|y l IH]; intros [|i] x H Hx; cbn [replace_nth]; auto; inversion H; subst; constructor; auto. Qed.
Lemma nth_opt_Forall {A} (P : A -> Prop) (l : list A) : forall j x, Forall P l -> nth_opt l j = Some x -> P x.
Proof. induction l as [|y l IH]; intros [|j] x H E; cbn [nth_opt] in E; try discriminate; inversion H; subst; [injection E as <-; assumption|eapply IH; eassumption]. Qed.

Lemma expand_loop_keeps rec many :
  (forall fs acc v b cc, comps_in cc -> keeps_nd fs (fst (rec fs acc v b cc))) ->
  forall cs store fs acc, comps_in cs -> keeps_nd fs (fst (expand_loop rec mesgnum many cs store fs acc)).
Proof.
  intros Hrec. induction cs as [|cmp rest IHcs]; intros store fs acc Hcs; cbn [expand_loop]; [apply keeps_refl|].
  inversion Hcs as [|? ? Hd Hrest]; subst. cbv zeta.
  destruct ((fst (pull store (c_bits cmp)) =? 0) && many); [apply keeps_refl|].
  set (cf0 := create_field mesgnum (c_num cmp)).
  match goal with |- keeps_nd fs (fst (expand_loop rec mesgnum many rest ?st (fst (rec ?fs1 ?a ?v ?b ?cc)) ?a2)) =>
    assert (H1 : keeps_nd fs fs1); [|assert (H2 : comps_in cc)] end.
  - destruct (last_index fs (c_num cmp) 0 None) as [j|] eqn:El.
    + destruct (nth_opt fs j) as [fr|] eqn:En; [|apply keeps_refl].
      destruct (last_index_spec _ _ _ _ _ El) as [Habs|(g & Hg & Hn & _)]; [discriminate|]. rewrite Nat.sub_0_r, En in Hg. injection Hg as <-.
      split.
      * intros k f Hk Hnd. destruct (Nat.eq_dec j k) as [<-|Hne]; [rewrite En in Hk; injection Hk as <-; rewrite Hn in Hnd; contradiction|].
        rewrite nth_opt_replace_other by exact Hne. exact Hk.
      * intros Hall. apply Forall_replace; [exact Hall|]. cbn [set_value f_fb]. apply (nth_opt_Forall (fun f => fb_in (f_fb f)) fs j _ Hall). exact En.
    + split.
      * intros k f Hk _. apply nth_opt_app_l. exact Hk.
      * intros Hall. apply Forall_app. split; [exact Hall|]. constructor; [|constructor]. cbn [set_value f_fb]. apply closed. exact Hd.
  - apply chosen_in. cbn [f_fb]. apply closed. exact Hd.
  - eapply keeps_trans; [exact H1|]. eapply keeps_trans; [apply Hrec; exact H2|apply IHcs; exact Hrest].
Qed.

Lemma expand_components_keeps : forall fuel fs acc containing base comps, comps_in comps ->
  keeps_nd fs (fst (expand_components fuel mesgnum fs acc containing base comps)).
Proof.
  induction fuel as [|fuel IH]; intros fs acc containing base comps Hc; cbn [expand_components]; [apply keeps_refl|].
  destruct comps as [|c0 comps0]; [apply keeps_refl|].
  destruct (negb (valid containing base)); [apply keeps_refl|].
  destruct (make_bits containing) as [store|]; [|apply keeps_refl].
  apply expand_loop_keeps; [|exact Hc]. intros. apply IH. assumption.
Qed.

Lemma expand_all_keeps : forall k i fs acc, Forall (fun f => fb_in (f_fb f)) fs -> keeps_nd fs (fst (expand_all k i mesgnum fs acc)).
Proof.
  induction k as [|k IH]; intros i fs acc Hall; cbn [expand_all]; [apply keeps_refl|].
  destruct (nth_opt fs i) as [f|] eqn:En; [|apply keeps_refl].
  assert (Hc : comps_in (match subfield_substitution (fb_subs (f_fb f)) fs with Some sf => s_comps sf | None => fb_comps (f_fb f) end))
    by (apply chosen_in; exact (nth_opt_Forall (fun f => fb_in (f_fb f)) fs i f Hall En)).
  match goal with |- context[expand_components ?fu ?m ?a ?b ?c ?d ?e] =>
    pose proof (expand_components_keeps fu a b c d e Hc) as H1; destruct (expand_components fu m a b c d e) as [fs1 acc1] end.
  cbn [fst] in H1. eapply keeps_trans; [exact H1|]. apply IH. apply H1. exact Hall.
Qed.

Theorem non_destination_unchanged k i fs acc j f : Forall (fun f => fb_in (f_fb f)) fs -> nth_opt fs j = Some f -> ~ D (f_num f) ->
  nth_opt (fst (expand_all k i mesgnum fs acc)) j = Some f.
Proof. intros Hall Hj Hn. apply (expand_all_keeps k i fs acc Hall); assumption. Qed.
End Frame.

(* the destination numbers of a message according to the factory table, and the fields the decoder builds *)
Definition dest (m n : N) : Prop :=
  exists k fb c, factory m k = Some fb /\ (In c (fb_comps fb) \/ exists sf, In sf (fb_subs fb) /\ In c (s_comps sf)) /\ c_num c = n.

Lemma factory_fb_in m k fb : factory m k = Some fb -> fb_in (dest m) fb.
Proof.
  intros H. split.
  - apply Forall_forall. intros c Hc. exists k, fb, c. auto.
  - apply Forall_forall. intros sf Hsf. apply Forall_forall. intros c Hc. exists k, fb, c. split; [exact H|]. split; [right; exists sf; auto|reflexivity].
Qed.
Lemma create_field_in m n : fb_in (dest m) (f_fb (create_field m n)).
Proof.
  unfold create_field. destruct (factory m n) as [fb|] eqn:E; cbn [f_fb]; [eapply factory_fb_in; exact E|].
  split; constructor.
Qed.

(* fields as the decoder builds them (the factory's field, possibly retyped) stay untouched unless they are destinations *)
Theorem decoded_non_destination_unchanged m k i fs acc j f :
  Forall (fun f => fb_comps (f_fb f) = fb_comps (f_fb (create_field m (f_num f))) /\ fb_subs (f_fb f) = fb_subs (f_fb (create_field m (f_num f)))) fs ->
  nth_opt fs j = Some f -> ~ dest m (f_num f) -> nth_opt (fst (expand_all k i m fs acc)) j = Some f.
Proof.
  intros Hall Hj Hn. apply (non_destination_unchanged (dest m) m (fun n _ => create_field_in m n) k i fs acc j f); try assumption.
  apply Forall_forall. intros g Hg. rewrite Forall_forall in Hall. destruct (Hall g Hg) as [E1 E2].
  pose proof (create_field_in m (f_num g)) as [H1 H2]. split; [rewrite E1; exact H1|rewrite E2; exact H2].
Qed.
