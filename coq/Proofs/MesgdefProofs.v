(* C13 -- generic theorems about the typed-message interpreter of Model/Mesgdef.v, for every well-formed specification:
   the checked Reset / ToMesg never panic and equal their unchecked twins; message -> struct -> message is [normalise];
   struct -> message -> struct is the identity on canonical structs. *)
From Coq Require Import NArith ZArith List Bool String Lia.
Import ListNotations.
From Fit Require Import Model.Profile Model.Mesgdef.
Open Scope N_scope.
Set Warnings "-unused-intro-pattern".

(* ------------------------------------------------------------------ small facts *)
Lemma ntype_eqb_refl t : ntype_eqb t t = true. Proof. destruct t; reflexivity. Qed.
Lemma ntype_eqb_eq a b : ntype_eqb a b = true -> a = b. Proof. destruct a, b; cbn; congruence. Qed.

Lemma leqb_refl {A} (eqb : A -> A -> bool) (Hr : forall x, eqb x x = true) l : leqb eqb l l = true.
Proof. induction l as [|x r IH]; cbn; [reflexivity|]. rewrite Hr, IH. reflexivity. Qed.
Lemma leqb_eq {A} (eqb : A -> A -> bool) (He : forall x y, eqb x y = true -> x = y) :
  forall a b, leqb eqb a b = true -> a = b.
Proof.
  induction a as [|x a IH]; intros [|y b] H; cbn in H; try discriminate; [reflexivity|].
  apply andb_prop in H. destruct H as [H1 H2]. f_equal; [apply He; exact H1|apply IH; exact H2].
Qed.
Lemma Neqb_eq x y : N.eqb x y = true -> x = y. Proof. apply N.eqb_eq. Qed.
Lemma strs_eqb_eq (x y : list N) : leqb N.eqb x y = true -> x = y. Proof. apply leqb_eq, Neqb_eq. Qed.

Lemma fit_len_length {A} n (fill : A) l : List.length (fit_len n fill l) = n.
Proof. revert l. induction n as [|n IH]; intros l; cbn; [reflexivity|]. destruct l; cbn; rewrite IH; reflexivity. Qed.
Lemma fit_len_id {A} (fill : A) l : fit_len (List.length l) fill l = l.
Proof. induction l as [|x r IH]; cbn; [reflexivity|]. rewrite IH. reflexivity. Qed.
(* comparison with the all-fill array = every element is the fill value *)
Lemma leqb_fill {A} (eqb : A -> A -> bool) (fill : A) : forall l,
  leqb eqb l (fit_len (List.length l) fill []) = all_fill eqb fill l.
Proof. induction l as [|x r IH]; cbn; [reflexivity|]. rewrite IH. reflexivity. Qed.

Lemma nodup_b_NoDup l : nodup_b l = true -> NoDup l.
Proof.
  induction l as [|x r IH]; cbn; intros H; [constructor|].
  apply andb_prop in H. destruct H as [H1 H2]. constructor; [|apply IH; exact H2].
  intros Hin. apply negb_true_iff in H1. assert (E : existsb (N.eqb x) r = true).
  { apply existsb_exists. exists x. split; [exact Hin|apply N.eqb_refl]. }
  congruence.
Qed.

Lemma get_none l k : (forall f, In f l -> f_num f <> k) -> get l k = None.
Proof.
  unfold get. induction l as [|f r IH]; intros H; cbn; [reflexivity|].
  destruct (N.eqb_spec (f_num f) k) as [E|E]; [exfalso; apply (H f); [left; reflexivity|exact E]|].
  apply IH. intros g Hg. apply H. right. exact Hg.
Qed.
Lemma get_app a b k : get (a ++ b) k = match get a k with Some v => Some v | None => get b k end.
Proof.
  unfold get. induction a as [|f r IH]; cbn; [reflexivity|].
  destruct (f_num f =? k); cbn; [reflexivity|exact IH].
Qed.

(* ------------------------------------------------------------------ facts carried by wf_core *)
Section Generic.
Variable fac : N -> N -> option fieldbase.
Variable s : mspec.

Record core_facts : Prop := {
  cf_nodup : NoDup (map mf_num (ms_fields s));
  cf_bound : ms_bound s < ms_vals_len s;
  cf_exp : ms_exp_bound s <= 8 * ms_state_len s;
  cf_isexp : ms_isexp_bound s <= 8 * ms_state_len s;
  cf_slots : Forall (fun mf => wf_slot fac s mf = true) (ms_fields s) }.

Lemma wf_core_facts : wf_core fac s = true -> core_facts.
Proof.
  unfold wf_core. intros H. repeat (apply andb_prop in H; destruct H as [H ?]).
  constructor.
  - apply nodup_b_NoDup. assumption.
  - apply N.ltb_lt. assumption.
  - apply N.leb_le. assumption.
  - apply N.leb_le. assumption.
  - apply Forall_forall. intros mf Hin. eapply forallb_forall in Hin; eassumption.
Qed.

Record slot_facts (mf : mfield) : Prop := {
  sf_idx : mf_idx mf = mf_num mf;
  sf_le : mf_num mf <= ms_bound s;
  sf_lt : mf_idx mf < ms_vals_len s;
  sf_shape : acc_eqb_shape (mf_acc mf) (mf_guard mf) (mf_ctor mf) = true;
  sf_fac : exists fb, fac (ms_num s) (mf_num mf) = Some fb /\ fb_num fb = mf_num mf;
  sf_exp : match mf_exp mf with
           | None => expandable s (mf_num mf) = false
           | Some n => n = mf_num mf /\ expandable s n = true /\ n < ms_exp_bound s /\ n < ms_isexp_bound s
           end }.

Lemma wf_slot_facts mf : wf_slot fac s mf = true -> slot_facts mf.
Proof.
  unfold wf_slot. intros H. repeat (apply andb_prop in H; destruct H as [H ?]).
  constructor.
  - apply N.eqb_eq. assumption.
  - apply N.leb_le. assumption.
  - apply N.ltb_lt. assumption.
  - assumption.
  - destruct (fac (ms_num s) (mf_num mf)) as [fb|]; [|discriminate]. exists fb. split; [reflexivity|apply N.eqb_eq; assumption].
  - destruct (mf_exp mf) as [n|].
    + match goal with Hx : _ && _ && _ && _ = true |- _ => rename Hx into He end.
      repeat (apply andb_prop in He; destruct He as [He ?]).
      repeat split; [apply N.eqb_eq|idtac|apply N.ltb_lt|apply N.ltb_lt]; assumption.
    + apply negb_true_iff. assumption.
Qed.

(* ------------------------------------------------------------------ Reset: checks pass, result = reset_pure *)
Definition step_state (st : N) (f : field) : N :=
  if negb (goes_unknown s f) && marks s f then N.setbit st (f_num f) else st.

Lemma scan_ok (Hb : ms_bound s < ms_vals_len s) (He : ms_exp_bound s <= 8 * ms_state_len s) : forall fs a,
  scan s fs a = Ok (mkscan (rev (known_fields s fs) ++ sc_vals a) (fold_left step_state fs (sc_state a))
                           (sc_unknown a ++ filter (goes_unknown s) fs)).
Proof.
  induction fs as [|f r IH]; intros a.
  - cbn. rewrite app_nil_r. destruct a; reflexivity.
  - change (scan s (f :: r) a) with (bind (scan_step s a f) (scan s r)).
    unfold scan_step, known_fields, step_state. cbn [filter fold_left].
    destruct (goes_unknown s f) eqn:G; cbn [negb andb bind].
    + rewrite IH. cbn [sc_vals sc_state sc_unknown]. rewrite <- app_assoc. reflexivity.
    + assert (Hn : f_num f <= ms_bound s).
      { unfold goes_unknown in G. apply orb_false_iff in G. destruct G as [G _]. apply N.ltb_ge in G. exact G. }
      assert (Hv : (f_num f <? ms_vals_len s) = true) by (apply N.ltb_lt; lia).
      destruct (marks s f) eqn:M.
      * assert (Hp : (f_num f / 8 <? ms_state_len s) = true).
        { apply N.ltb_lt. unfold marks in M. apply andb_prop in M. destruct M as [M _]. apply N.ltb_lt in M.
          apply N.div_lt_upper_bound; lia. }
        rewrite Hp. cbn [bind]. rewrite Hv. cbn [bind]. rewrite IH. cbn [sc_vals sc_state sc_unknown rev]. rewrite <- app_assoc. reflexivity.
      * cbn [bind]. rewrite Hv. cbn [bind]. rewrite IH. cbn [sc_vals sc_state sc_unknown rev]. rewrite <- app_assoc. reflexivity.
Qed.

Lemma read_all_ok vals : forall mfs, Forall (fun mf => mf_idx mf < ms_vals_len s) mfs ->
  read_all s vals mfs = Ok (map (fun mf => read_slot (mf_acc mf) (get vals (mf_idx mf))) mfs).
Proof.
  induction mfs as [|mf r IH]; intros H; [reflexivity|]. inversion H as [|? ? H1 H2]; subst.
  cbn [read_all map]. apply N.ltb_lt in H1. rewrite H1, (IH H2). reflexivity.
Qed.

Lemma state_of_fold fs : state_of s fs = fold_left step_state fs 0.
Proof. reflexivity. Qed.

Theorem reset_ok (Hwf : wf_core fac s = true) m : reset s m = Ok (reset_pure s m).
Proof.
  destruct (wf_core_facts Hwf) as [_ Hb He _ Hs]. unfold reset, reset_pure.
  rewrite (scan_ok Hb He). cbn [bind sc_vals sc_state sc_unknown]. rewrite app_nil_r.
  rewrite read_all_ok.
  - cbn [bind]. reflexivity.
  - eapply Forall_impl; [|exact Hs]. intros mf H. apply (sf_lt mf (wf_slot_facts mf H)).
Qed.

(* ------------------------------------------------------------------ ToMesg: checks pass, result = to_mesg_pure *)
Lemma is_expanded_ok (Hi : ms_isexp_bound s <= 8 * ms_state_len s) st n :
  is_expanded s st n = Ok ((n <? ms_isexp_bound s) && N.testbit st n).
Proof.
  unfold is_expanded. destruct (N.leb_spec (ms_isexp_bound s) n) as [H|H].
  - replace (n <? ms_isexp_bound s) with false by (symmetry; apply N.ltb_ge; exact H). reflexivity.
  - replace (n <? ms_isexp_bound s) with true by (symmetry; apply N.ltb_lt; exact H).
    replace (n / 8 <? ms_state_len s) with true; [reflexivity|].
    symmetry. apply N.ltb_lt. apply N.div_lt_upper_bound; lia.
Qed.

Lemma emit_ok (Hi : ms_isexp_bound s <= 8 * ms_state_len s) o st mf v : emit fac s o st mf v = Ok (emit_pure fac s o st mf v).
Proof.
  unfold emit, emit_pure. destruct (guard_pass (mf_guard mf) v); [|reflexivity].
  destruct (build (mf_ctor mf) v) as [val|]; [|reflexivity].
  destruct (mf_exp mf) as [n|]; [|reflexivity].
  rewrite (is_expanded_ok Hi). cbn [bind].
  destruct (negb ((n <? ms_isexp_bound s) && N.testbit st n) || include_expanded o); reflexivity.
Qed.

Lemma emit_all_ok (Hi : ms_isexp_bound s <= 8 * ms_state_len s) o st : forall mfs vs,
  emit_all fac s o st mfs vs = Ok (emit_all_pure fac s o st mfs vs).
Proof.
  induction mfs as [|mf r IH]; intros vs; [reflexivity|]. destruct vs as [|v vr]; [reflexivity|].
  cbn [emit_all emit_all_pure]. rewrite (emit_ok Hi), IH. reflexivity.
Qed.

Theorem to_mesg_ok (Hwf : wf_core fac s = true) o t : to_mesg fac s o t = Ok (to_mesg_pure fac s o t).
Proof.
  destruct (wf_core_facts Hwf) as [_ _ _ Hi _]. unfold to_mesg, to_mesg_pure. rewrite (emit_all_ok Hi). reflexivity.
Qed.

(* ------------------------------------------------------------------ the expanded marks as bits *)
Lemma testbit_fold n : forall fs st,
  N.testbit (fold_left step_state fs st) n =
  N.testbit st n || existsb (fun f => negb (goes_unknown s f) && marks s f && (f_num f =? n)) fs.
Proof.
  induction fs as [|f r IH]; intros st; cbn [fold_left existsb]; [rewrite orb_false_r; reflexivity|].
  rewrite IH. unfold step_state.
  destruct (negb (goes_unknown s f) && marks s f); cbn [andb].
  - rewrite N.setbit_eqb. destruct (f_num f =? n), (N.testbit st n); reflexivity.
  - reflexivity.
Qed.

Lemma testbit_state_of fs n (Hn : n < ms_exp_bound s) : N.testbit (state_of s fs) n = marked s fs n.
Proof.
  rewrite state_of_fold, testbit_fold, N.bits_0. cbn [orb]. unfold marked.
  induction fs as [|f r IH]; cbn [existsb]; [reflexivity|]. rewrite IH. f_equal.
  unfold marks. destruct (N.eqb_spec (f_num f) n) as [E|E].
  - rewrite E. replace (n <? ms_exp_bound s) with true by (symmetry; apply N.ltb_lt; exact Hn).
    destruct (negb (goes_unknown s f)), (f_expanded f); reflexivity.
  - destruct (negb (goes_unknown s f)), ((f_num f <? ms_exp_bound s) && f_expanded f); reflexivity.
Qed.

(* ------------------------------------------------------------------ one slot: value out of the struct *)
Definition slot_out (g : guard) (c : ctor) (v : sval) : option value := if guard_pass g v then build c v else None.

Definition with_mark (o : options) (st : N) (mf : mfield) (val : value) : list field :=
  match mf_exp mf with
  | None => [created fac s (mf_num mf) val false]
  | Some n => let e := (n <? ms_isexp_bound s) && N.testbit st n in
              if negb e || include_expanded o then [created fac s (mf_num mf) val e] else []
  end.

Lemma emit_pure_slot_out o st mf v :
  emit_pure fac s o st mf v = match slot_out (mf_guard mf) (mf_ctor mf) v with None => [] | Some val => with_mark o st mf val end.
Proof. unfold emit_pure, slot_out, with_mark. destruct (guard_pass (mf_guard mf) v); [|reflexivity]. destruct (build (mf_ctor mf) v); reflexivity. Qed.

(* message -> struct -> message, value part: agreement of accessor, guard and constructor gives the normal form *)
Lemma slot_out_read a g c v : acc_eqb_shape a g c = true -> slot_out g c (read_slot a v) = norm_value a v.
Proof.
  intros Hs. unfold slot_out. destruct a as [t inv|inv|t|t len fill| | |len].
  - (* ANum *)
    destruct g as [inv'|k| | | | | ], c as [t'| | | | ]; try (destruct t; discriminate Hs).
    + (* GNeq *) cbn in Hs. assert (Ht : t <> TBool /\ t = t' /\ inv = inv').
      { destruct t; cbn in Hs; try discriminate;
        repeat (apply andb_prop in Hs; destruct Hs as [Hs ?]); (split; [discriminate|split; [apply ntype_eqb_eq; assumption|apply N.eqb_eq; assumption]]). }
      destruct Ht as (Hnb & <- & <-).
      destruct v as [[|t'' x|? ?|?|?]|]; cbn [read_slot];
        try (cbn [guard_pass]; rewrite N.eqb_refl; destruct t; reflexivity).
      destruct (ntype_eqb t t'') eqn:E.
      * apply ntype_eqb_eq in E. subst t''. cbn [guard_pass]. destruct t; try congruence; cbn; destruct (x =? inv); reflexivity.
      * cbn [guard_pass]. rewrite N.eqb_refl. cbn. destruct t, t''; try discriminate E; reflexivity.
    + (* GLt: Bool *) destruct t; try discriminate Hs. destruct t'; try discriminate Hs. cbn in Hs.
      apply andb_prop in Hs. destruct Hs as [Hk Hi]. apply N.eqb_eq in Hk, Hi. subst k inv.
      destruct v as [[|t'' x|? ?|?|?]|]; cbn [read_slot]; try reflexivity.
      destruct t''; cbn; try reflexivity.
      destruct (N.ltb_spec x 2) as [H|H]; [|reflexivity].
      replace (1 <? x) with false by (symmetry; apply N.ltb_ge; lia). reflexivity.
  - (* ATime *)
    destruct g, c; try discriminate Hs. cbn in Hs. apply N.eqb_eq in Hs. subst inv.
    destruct v as [[|t'' x|? ?|?|?]|]; cbn [read_slot]; try reflexivity.
    destruct t''; try reflexivity. cbn [norm_value]. destruct (x =? 4294967295); [reflexivity|].
    cbn [guard_pass build]. replace (0 <=? Z.of_N x)%Z with true by (symmetry; apply Z.leb_le; lia).
    rewrite N2Z.id. reflexivity.
  - (* AArr *)
    destruct g, c as [|?|t'| |]; try discriminate Hs. cbn in Hs. apply ntype_eqb_eq in Hs. subst t'.
    destruct v as [[|? ?|t'' l|?|?]|]; cbn [read_slot]; try reflexivity.
    cbn [norm_value]. destruct (ntype_eqb t t''); destruct l; reflexivity.
  - (* AFix *)
    destruct g as [| | | |len' fill'| |], c as [|?|t'| |]; try discriminate Hs. cbn in Hs.
    repeat (apply andb_prop in Hs; destruct Hs as [Hs ?]). apply ntype_eqb_eq in Hs. subst t'.
    match goal with H : (len =? len') = true |- _ => apply N.eqb_eq in H; subst len' end.
    match goal with H : (fill =? fill') = true |- _ => apply N.eqb_eq in H; subst fill' end.
    assert (Hdef : (if guard_pass (GFixNeq len fill) (SVFix (fit_len (N.to_nat len) fill [])) then build (CArr t) (SVFix (fit_len (N.to_nat len) fill [])) else None) = None).
    { cbn [guard_pass]. rewrite leqb_refl by apply N.eqb_refl. reflexivity. }
    destruct v as [[|? ?|t'' [l|]|?|?]|]; cbn [read_slot norm_value]; try exact Hdef.
    destruct (ntype_eqb t t''); [|exact Hdef].
    cbn [guard_pass build].
    set (l' := fit_len (N.to_nat len) fill l).
    assert (Hl : N.to_nat len = List.length l') by (unfold l'; rewrite fit_len_length; reflexivity).
    rewrite Hl, leqb_fill. destruct (all_fill N.eqb fill l'); reflexivity.
  - (* AStr *)
    destruct g, c; try discriminate Hs.
    destruct v as [[|? ?|? ?|x|?]|]; cbn [read_slot]; try reflexivity.
    cbn. destruct x; reflexivity.
  - (* AStrs *)
    destruct g, c; try discriminate Hs.
    destruct v as [[|? ?|? ?|?|[l|]]|]; reflexivity.
  - (* AFixStr *)
    destruct g as [| | | | | |len'], c; try discriminate Hs. cbn in Hs. apply N.eqb_eq in Hs. subst len'.
    assert (Hdef : (if guard_pass (GFixStrNeq len) (SVFixStr (fit_len (N.to_nat len) [] [])) then build CStrs (SVFixStr (fit_len (N.to_nat len) [] [])) else None) = None).
    { cbn [guard_pass]. rewrite leqb_refl; [reflexivity|]. intros x. apply leqb_refl, N.eqb_refl. }
    destruct v as [[|? ?|? ?|?|[l|]]|]; cbn [read_slot norm_value]; try exact Hdef.
    cbn [guard_pass build].
    set (l' := fit_len (N.to_nat len) [] l).
    assert (Hl : N.to_nat len = List.length l') by (unfold l'; rewrite fit_len_length; reflexivity).
    rewrite Hl, leqb_fill. destruct (all_fill (leqb N.eqb) [] l'); reflexivity.
Qed.

(* struct -> message -> struct, value part: reading back what a canonical slot value emitted *)
Lemma read_slot_out mf v : acc_eqb_shape (mf_acc mf) (mf_guard mf) (mf_ctor mf) = true -> slot_canonical mf v = true ->
  read_slot (mf_acc mf) (slot_out (mf_guard mf) (mf_ctor mf) v) = v.
Proof.
  unfold slot_canonical, slot_out. intros Hs Hc.
  destruct (mf_acc mf) as [t inv|inv|t|t len fill| | |len], (mf_guard mf) as [inv'|k| | |len' fill'| |len'], (mf_ctor mf) as [t'| |t'| |];
    try discriminate Hs; try (destruct t; discriminate Hs).
  - (* ANum / GNeq *)
    assert (Ht : t <> TBool /\ t = t' /\ inv = inv').
    { cbn in Hs. destruct t; cbn in Hs; try discriminate;
      repeat (apply andb_prop in Hs; destruct Hs as [Hs ?]); (split; [discriminate|split; [apply ntype_eqb_eq; assumption|apply N.eqb_eq; assumption]]). }
    destruct Ht as (Hnb & <- & <-).
    destruct v as [x| | | | | |]; try (destruct t; discriminate Hc).
    cbn [guard_pass]. destruct (N.eqb_spec x inv) as [->|E]; cbn [negb read_slot]; [reflexivity|].
    destruct t; try congruence; cbn; reflexivity.
  - (* Bool *)
    destruct t; try discriminate Hs. destruct t'; try discriminate Hs. cbn in Hs.
    apply andb_prop in Hs. destruct Hs as [Hk Hi]. apply N.eqb_eq in Hk, Hi. subst k inv.
    destruct v as [x| | | | | |]; try discriminate Hc.
    apply orb_prop in Hc. cbn [guard_pass]. destruct Hc as [H|H].
    + rewrite H. apply N.ltb_lt in H. cbn [build]. replace (1 <? x) with false by (symmetry; apply N.ltb_ge; lia). reflexivity.
    + apply N.eqb_eq in H. subst x. reflexivity.
  - (* time *)
    cbn in Hs. apply N.eqb_eq in Hs. subst inv.
    destruct v as [|sec| | | | |]; try discriminate Hc. cbn [guard_pass].
    apply orb_prop in Hc. destruct Hc as [H|H].
    + apply Z.eqb_eq in H. subst sec. reflexivity.
    + apply andb_prop in H. destruct H as [H0 H1]. rewrite H0. apply Z.leb_le in H0. apply Z.ltb_lt in H1.
      cbn [build read_slot]. replace (Z.to_N sec =? 4294967295) with false by (symmetry; apply N.eqb_neq; lia).
      rewrite Z2N.id by exact H0. reflexivity.
  - (* slice *)
    cbn in Hs. apply ntype_eqb_eq in Hs. subst t'.
    destruct v as [| |[l|]| | | |]; try discriminate Hc; cbn; [rewrite ntype_eqb_refl|]; reflexivity.
  - (* fixed array *)
    cbn in Hs. repeat (apply andb_prop in Hs; destruct Hs as [Hs ?]). apply ntype_eqb_eq in Hs. subst t'.
    match goal with H : (len =? len') = true |- _ => apply N.eqb_eq in H; subst len' end.
    match goal with H : (fill =? fill') = true |- _ => apply N.eqb_eq in H; subst fill' end.
    destruct v as [| | |l| | |]; try discriminate Hc. apply N.eqb_eq in Hc.
    assert (Hl : N.to_nat len = List.length l) by lia.
    cbn [guard_pass]. destruct (leqb N.eqb l (fit_len (N.to_nat len) fill [])) eqn:E; cbn [negb].
    + apply (leqb_eq _ Neqb_eq) in E. cbn [read_slot]. congruence.
    + cbn [build read_slot]. rewrite ntype_eqb_refl, Hl, fit_len_id. reflexivity.
  - (* string *)
    destruct v as [| | | |x| |]; try discriminate Hc. cbn. destruct x; reflexivity.
  - (* strings *)
    destruct v as [| | | | |[l|]|]; try discriminate Hc; reflexivity.
  - (* fixed string array *)
    cbn in Hs. apply N.eqb_eq in Hs. subst len'.
    destruct v as [| | | | | |l]; try discriminate Hc. apply N.eqb_eq in Hc.
    assert (Hl : N.to_nat len = List.length l) by lia.
    cbn [guard_pass]. destruct (leqb (leqb N.eqb) l (fit_len (N.to_nat len) [] [])) eqn:E; cbn [negb].
    + apply (leqb_eq _ strs_eqb_eq) in E. cbn [read_slot]. congruence.
    + cbn [build read_slot]. rewrite Hl, fit_len_id. reflexivity.
Qed.

(* ------------------------------------------------------------------ message -> struct -> message *)
Lemma emit_norm (Hs : Forall (fun mf => wf_slot fac s mf = true) (ms_fields s)) o fs : forall mfs, incl mfs (ms_fields s) ->
  emit_all_pure fac s o (state_of s fs) mfs (map (fun mf => read_slot (mf_acc mf) (last_value s fs (mf_idx mf))) mfs)
  = flat_map (norm_field fac s o fs) mfs.
Proof.
  induction mfs as [|mf r IH]; intros Hin; [reflexivity|].
  cbn [map emit_all_pure flat_map]. rewrite IH by (intros x Hx; apply Hin; right; exact Hx). f_equal.
  assert (Hmf : wf_slot fac s mf = true) by (rewrite Forall_forall in Hs; apply Hs, Hin; left; reflexivity).
  destruct (wf_slot_facts mf Hmf) as [Hidx _ _ Hshape _ Hexp].
  rewrite emit_pure_slot_out, Hidx, (slot_out_read _ _ _ _ Hshape). unfold norm_field.
  destruct (norm_value (mf_acc mf) (last_value s fs (mf_num mf))) as [val|]; [|reflexivity].
  unfold with_mark. destruct (mf_exp mf) as [n|].
  - destruct Hexp as (-> & He & Hlt & Hlt2). rewrite He. cbn [andb].
    replace (mf_num mf <? ms_isexp_bound s) with true by (symmetry; apply N.ltb_lt; exact Hlt2). cbn [andb].
    rewrite (testbit_state_of fs _ Hlt).
    destruct (marked s fs (mf_num mf)), (include_expanded o); reflexivity.
  - rewrite Hexp. reflexivity.
Qed.

Theorem mesg_struct_mesg_pure (Hwf : wf_core fac s = true) o m :
  to_mesg_pure fac s o (reset_pure s m) = normalise fac s o m.
Proof.
  destruct (wf_core_facts Hwf) as [_ _ _ _ Hs]. unfold to_mesg_pure, reset_pure, normalise. cbn [t_slots t_state t_unknown t_devs].
  rewrite (emit_norm Hs) by apply incl_refl. destruct (ms_has_devs s); reflexivity.
Qed.

Theorem mesg_struct_mesg (Hwf : wf_core fac s = true) o m :
  bind (reset s m) (to_mesg fac s o) = Ok (normalise fac s o m).
Proof. rewrite (reset_ok Hwf). cbn [bind]. rewrite (to_mesg_ok Hwf), (mesg_struct_mesg_pure Hwf). reflexivity. Qed.

(* ------------------------------------------------------------------ struct -> message -> struct *)
Definition canonical (o : options) (t : tstruct) : Prop :=
  Forall2 (fun mf v => slot_canonical mf v = true) (ms_fields s) (t_slots t) /\
  (forall n, N.testbit (t_state t) n = true ->
     include_expanded o = true /\
     exists mf v, In (mf, v) (combine (ms_fields s) (t_slots t)) /\ mf_exp mf = Some n /\
                  slot_out (mf_guard mf) (mf_ctor mf) v <> None) /\
  Forall (fun f => goes_unknown s f = true) (t_unknown t) /\
  (ms_has_devs s = false -> t_devs t = []).

Lemma created_props mf val e : wf_slot fac s mf = true ->
  let f := created fac s (mf_num mf) val e in
  f_num f = mf_num mf /\ f_known f = true /\ f_value f = val /\ f_expanded f = e /\ goes_unknown s f = false.
Proof.
  intros H. destruct (wf_slot_facts mf H) as [_ Hle _ _ (fb & Hf & Hn) _]. unfold created. rewrite Hf. cbn.
  repeat split; try assumption. unfold goes_unknown. cbn. rewrite Hn, orb_false_r. apply N.ltb_ge. exact Hle.
Qed.

Lemma emit_pure_in o st mf v f : wf_slot fac s mf = true -> In f (emit_pure fac s o st mf v) ->
  f_num f = mf_num mf /\ goes_unknown s f = false /\
  exists val, slot_out (mf_guard mf) (mf_ctor mf) v = Some val /\ f_value f = val /\
    (f_expanded f = true -> exists n, mf_exp mf = Some n /\ N.testbit st n = true).
Proof.
  intros Hwf. rewrite emit_pure_slot_out. destruct (slot_out (mf_guard mf) (mf_ctor mf) v) as [val|]; [|intros []].
  unfold with_mark. destruct (mf_exp mf) as [n|].
  - destruct (negb _ || _); [|intros []]. intros [<-|[]].
    destruct (created_props mf val ((n <? ms_isexp_bound s) && N.testbit st n) Hwf) as (H1 & _ & H3 & H4 & H5).
    repeat split; try assumption. exists val. repeat split; try assumption.
    intros He. rewrite H4 in He. apply andb_prop in He. exists n. split; [reflexivity|apply He].
  - intros [<-|[]]. destruct (created_props mf val false Hwf) as (H1 & _ & H3 & H4 & H5).
    repeat split; try assumption. exists val. repeat split; try assumption. intros He. rewrite H4 in He. discriminate.
Qed.

Lemma emit_all_in o st : forall mfs vs f, Forall (fun mf => wf_slot fac s mf = true) mfs -> In f (emit_all_pure fac s o st mfs vs) ->
  exists mf v, In (mf, v) (combine mfs vs) /\ In f (emit_pure fac s o st mf v).
Proof.
  induction mfs as [|mf r IH]; intros vs f Hs H; [destruct H|]. destruct vs as [|v vr]; [destruct H|].
  cbn [emit_all_pure] in H. apply in_app_iff in H. destruct H as [H|H].
  - exists mf, v. split; [left; reflexivity|exact H].
  - inversion Hs; subst. destruct (IH vr f H3 H) as (mf' & v' & Hin & Hf). exists mf', v'. split; [right; exact Hin|exact Hf].
Qed.

Lemma emit_all_intro o st : forall mfs vs mf v f, In (mf, v) (combine mfs vs) -> In f (emit_pure fac s o st mf v) ->
  In f (emit_all_pure fac s o st mfs vs).
Proof.
  induction mfs as [|m0 r IH]; intros vs mf v f Hin Hf; [destruct Hin|]. destruct vs as [|v0 vr]; [destruct Hin|].
  cbn [emit_all_pure]. apply in_app_iff. destruct Hin as [E|Hin].
  - injection E as <- <-. left. exact Hf.
  - right. eapply IH; eassumption.
Qed.

(* reading vals[num] after the emitted fields were stored: the field of that slot, if it was emitted *)
Lemma get_rev_emit o st : forall mfs vs, NoDup (map mf_num mfs) -> Forall (fun mf => wf_slot fac s mf = true) mfs ->
  forall mf v, In (mf, v) (combine mfs vs) ->
  get (rev (emit_all_pure fac s o st mfs vs)) (mf_num mf) = option_map f_value (hd_error (emit_pure fac s o st mf v)).
Proof.
  induction mfs as [|m0 r IH]; intros vs Hnd Hs mf v Hin; [destruct Hin|]. destruct vs as [|v0 vr]; [destruct Hin|].
  inversion Hnd as [|? ? Hnotin Hndr]; subst. inversion Hs as [|? ? Hs0 Hsr]; subst.
  cbn [emit_all_pure]. rewrite rev_app_distr, get_app.
  assert (Hone : forall k, (forall f, In f (emit_pure fac s o st m0 v0) -> f_num f = mf_num m0) ->
                 get (rev (emit_pure fac s o st m0 v0)) k =
                 if mf_num m0 =? k then option_map f_value (hd_error (emit_pure fac s o st m0 v0)) else None).
  { intros k Hk. rewrite emit_pure_slot_out in *. destruct (slot_out (mf_guard m0) (mf_ctor m0) v0) as [val|]; [|destruct (mf_num m0 =? k); reflexivity].
    unfold with_mark in *. destruct (mf_exp m0) as [n|].
    - destruct (negb _ || _); [|destruct (mf_num m0 =? k); reflexivity]. cbn [rev app]. unfold get. cbn [find].
      rewrite (Hk _ (or_introl eq_refl)). destruct (mf_num m0 =? k); reflexivity.
    - cbn [rev app]. unfold get. cbn [find]. rewrite (Hk _ (or_introl eq_refl)). destruct (mf_num m0 =? k); reflexivity. }
  assert (Hnum0 : forall f, In f (emit_pure fac s o st m0 v0) -> f_num f = mf_num m0).
  { intros f Hf. apply (emit_pure_in o st m0 v0 f Hs0 Hf). }
  cbn [combine] in Hin. destruct Hin as [E|Hin].
  - injection E as <- <-.
    rewrite (get_none (rev (emit_all_pure fac s o st r vr))).
    + rewrite (Hone _ Hnum0), N.eqb_refl. reflexivity.
    + intros f Hf E. apply in_rev in Hf. destruct (emit_all_in o st r vr f Hsr Hf) as (mf' & v' & Hin' & Hf').
      apply Hnotin. rewrite <- E. rewrite Forall_forall in Hsr.
      destruct (emit_pure_in o st mf' v' f (Hsr mf' (in_combine_l _ _ _ _ Hin')) Hf') as [-> _].
      apply in_map. eapply in_combine_l. exact Hin'.
  - rewrite (IH vr Hndr Hsr mf v Hin). destruct (option_map f_value (hd_error (emit_pure fac s o st mf v))); [reflexivity|].
    rewrite (Hone _ Hnum0). destruct (N.eqb_spec (mf_num m0) (mf_num mf)) as [E|E]; [|reflexivity].
    exfalso. apply Hnotin. rewrite E. apply in_map. eapply in_combine_l. exact Hin.
Qed.

Lemma map_eq_combine {A B} (g : A -> B) : forall (xs : list A) (ys : list B), List.length xs = List.length ys ->
  (forall x y, In (x, y) (combine xs ys) -> g x = y) -> map g xs = ys.
Proof.
  induction xs as [|x xr IH]; intros [|y yr] Hl H; cbn in *; try discriminate; [reflexivity|].
  f_equal; [apply H; left; reflexivity|apply IH; [lia|intros; apply H; right; assumption]].
Qed.
Lemma Forall2_len {A B} (R : A -> B -> Prop) xs ys : Forall2 R xs ys -> List.length xs = List.length ys.
Proof. induction 1; cbn; [reflexivity|f_equal; assumption]. Qed.
Lemma Forall2_combine {A B} (R : A -> B -> Prop) xs ys : Forall2 R xs ys -> forall x y, In (x, y) (combine xs ys) -> R x y.
Proof. induction 1; cbn; intros a b Hin; [destruct Hin|]. destruct Hin as [E|Hin]; [injection E as <- <-; assumption|auto]. Qed.

Theorem struct_mesg_struct_pure (Hwf : wf_core fac s = true) o t : canonical o t ->
  reset_pure s (to_mesg_pure fac s o t) = t.
Proof.
  intros (Hslots & Hstate & Hunk & Hdevs). destruct (wf_core_facts Hwf) as [Hnd Hb He Hi Hs].
  unfold reset_pure, to_mesg_pure. cbn [m_fields m_devs].
  set (E := emit_all_pure fac s o (t_state t) (ms_fields s) (t_slots t)).
  assert (Hsl : forall mf, In mf (ms_fields s) -> wf_slot fac s mf = true) by (apply Forall_forall; exact Hs).
  assert (HE : forall f, In f E -> goes_unknown s f = false).
  { intros f Hf. destruct (emit_all_in o _ _ _ f Hs Hf) as (mf & v & Hin & Hf').
    apply (emit_pure_in o _ mf v f (Hsl mf (in_combine_l _ _ _ _ Hin)) Hf'). }
  assert (Hfilt_t : forall (p : field -> bool) l, (forall f, In f l -> p f = true) -> filter p l = l).
  { intros p l Hl. induction l as [|u r IH]; [reflexivity|]. cbn. rewrite (Hl u (or_introl eq_refl)), IH; [reflexivity|].
    intros g Hg. apply Hl. right. exact Hg. }
  assert (Hfilt_f : forall (p : field -> bool) l, (forall f, In f l -> p f = false) -> filter p l = []).
  { intros p l Hl. induction l as [|u r IH]; [reflexivity|]. cbn. rewrite (Hl u (or_introl eq_refl)). apply IH.
    intros g Hg. apply Hl. right. exact Hg. }
  rewrite Forall_forall in Hunk.
  assert (Hknown : known_fields s (E ++ t_unknown t) = E).
  { unfold known_fields. rewrite filter_app, Hfilt_t, Hfilt_f, app_nil_r; [reflexivity| |].
    - intros f Hf. rewrite (Hunk f Hf). reflexivity.
    - intros f Hf. rewrite (HE f Hf). reflexivity. }
  (* slots *)
  assert (H1 : map (fun mf => read_slot (mf_acc mf) (last_value s (E ++ t_unknown t) (mf_idx mf))) (ms_fields s) = t_slots t).
  { apply map_eq_combine; [eapply Forall2_len; exact Hslots|]. intros mf v Hin.
    assert (Hmf := Hsl mf (in_combine_l _ _ _ _ Hin)). destruct (wf_slot_facts mf Hmf) as [Hidx _ _ Hshape _ Hexp].
    unfold last_value. rewrite Hknown, Hidx. unfold E. rewrite (get_rev_emit o _ _ _ Hnd Hs mf v Hin).
    assert (Hc := Forall2_combine _ _ _ Hslots mf v Hin). cbn in Hc.
    rewrite <- (read_slot_out mf v Hshape Hc) at 2. f_equal.
    rewrite emit_pure_slot_out. destruct (slot_out (mf_guard mf) (mf_ctor mf) v) as [val|]; [|reflexivity].
    unfold with_mark. destruct (mf_exp mf) as [n|].
    - destruct (N.testbit (t_state t) n) eqn:Eb.
      + destruct (Hstate n Eb) as [Hinc _]. rewrite Hinc, orb_true_r. cbn.
        destruct (created_props mf val ((n <? ms_isexp_bound s) && true) Hmf) as (_ & _ & -> & _). reflexivity.
      + rewrite andb_false_r. cbn. destruct (created_props mf val false Hmf) as (_ & _ & -> & _). reflexivity.
    - cbn. destruct (created_props mf val false Hmf) as (_ & _ & -> & _). reflexivity. }
  (* marks *)
  assert (H2 : state_of s (E ++ t_unknown t) = t_state t).
  { apply N.bits_inj. intros n. rewrite state_of_fold, testbit_fold, N.bits_0. cbn [orb].
    rewrite existsb_app.
    replace (existsb _ (t_unknown t)) with false.
    2:{ symmetry. apply not_true_is_false. intros Hx. apply existsb_exists in Hx. destruct Hx as (f & Hf & Hp).
        rewrite (Hunk f Hf) in Hp. discriminate. }
    rewrite orb_false_r. apply eq_true_iff_eq. split.
    - intros Hx. apply existsb_exists in Hx. destruct Hx as (f & Hf & Hp).
      repeat (apply andb_prop in Hp; destruct Hp as [Hp ?]). unfold marks in *.
      match goal with H : _ && f_expanded f = true |- _ => apply andb_prop in H; destruct H as [_ Hexpd] end.
      match goal with H : (f_num f =? n) = true |- _ => apply N.eqb_eq in H; rename H into Hnum end.
      destruct (emit_all_in o _ _ _ f Hs Hf) as (mf & v & Hin & Hf').
      assert (Hmf := Hsl mf (in_combine_l _ _ _ _ Hin)).
      destruct (emit_pure_in o _ mf v f Hmf Hf') as (Hn & _ & val & _ & _ & Hex).
      destruct (Hex Hexpd) as (n' & Hn' & Hbit). destruct (wf_slot_facts mf Hmf) as [_ _ _ _ _ Hexp]. rewrite Hn' in Hexp.
      destruct Hexp as (-> & _). rewrite <- Hnum, Hn. exact Hbit.
    - intros Hbit. destruct (Hstate n Hbit) as (Hinc & mf & v & Hin & Hexp & Hout).
      assert (Hmf := Hsl mf (in_combine_l _ _ _ _ Hin)). destruct (wf_slot_facts mf Hmf) as [_ _ _ _ _ Hexp']. rewrite Hexp in Hexp'.
      destruct Hexp' as (Hn & _ & Hlt & Hlt2).
      destruct (slot_out (mf_guard mf) (mf_ctor mf) v) as [val|] eqn:Eo; [|congruence].
      apply existsb_exists. exists (created fac s (mf_num mf) val true). split.
      + unfold E. apply (emit_all_intro o _ _ _ mf v _ Hin). rewrite emit_pure_slot_out, Eo. unfold with_mark. rewrite Hexp, Hbit, Hinc.
        replace (n <? ms_isexp_bound s) with true by (symmetry; apply N.ltb_lt; exact Hlt2). cbn. left. reflexivity.
      + destruct (created_props mf val true Hmf) as (Hnum & _ & _ & Hexpd & Hunk'). cbn in Hnum, Hexpd, Hunk'.
        rewrite Hunk'. unfold marks. rewrite Hnum, Hexpd, <- Hn. rewrite N.eqb_refl.
        replace (n <? ms_exp_bound s) with true by (symmetry; apply N.ltb_lt; exact Hlt). reflexivity. }
  (* unknown fields *)
  assert (H3 : filter (goes_unknown s) (E ++ t_unknown t) = t_unknown t).
  { rewrite filter_app, (Hfilt_f _ _ HE), (Hfilt_t _ _ Hunk). reflexivity. }
  fold E. rewrite H1, H2, H3.
  destruct t as [sl st un dv]. cbn [t_devs] in *. f_equal. destruct (ms_has_devs s); [reflexivity|]. symmetry. apply Hdevs. reflexivity.
Qed.

Theorem struct_mesg_struct (Hwf : wf_core fac s = true) o t : canonical o t ->
  bind (to_mesg fac s o t) (reset s) = Ok t.
Proof. intros Hc. rewrite (to_mesg_ok Hwf). cbn [bind]. rewrite (reset_ok Hwf), (struct_mesg_struct_pure Hwf o t Hc). reflexivity. Qed.

(* ------------------------------------------------------------------ totality *)
Theorem reset_total (Hwf : wf_core fac s = true) m : exists t, reset s m = Ok t.
Proof. eexists. apply (reset_ok Hwf). Qed.
Theorem to_mesg_total (Hwf : wf_core fac s = true) o t : exists m, to_mesg fac s o t = Ok m.
Proof. eexists. apply (to_mesg_ok Hwf). Qed.

(* what becomes of an arbitrary input field: kept verbatim as unknown, or stored for the slot of its number *)
Theorem unknown_kept o m f : In f (m_fields m) -> goes_unknown s f = true -> In f (m_fields (normalise fac s o m)).
Proof.
  intros Hin Hu. unfold normalise. cbn [m_fields]. apply in_app_iff. right. apply filter_In. split; assumption.
Qed.

End Generic.

(* ------------------------------------------------------------------ a known field of the input is kept: value and mark *)
Lemma find_unique {A} (p : A -> bool) (x : A) : forall l, In x l -> p x = true ->
  (forall y, In y l -> p y = true -> y = x) -> find p l = Some x.
Proof.
  induction l as [|y r IH]; intros Hin Hp Hu; [destruct Hin|]. cbn.
  destruct (p y) eqn:E.
  - f_equal. apply Hu; [left; reflexivity|exact E].
  - destruct Hin as [->|Hin]; [congruence|]. apply IH; [exact Hin|exact Hp|]. intros z Hz. apply Hu. right. exact Hz.
Qed.

Section Kept.
Variable fac : N -> N -> option fieldbase.
Variable s : mspec.

Definition only_one (fs : list field) (f : field) : Prop :=
  forall g, In g fs -> goes_unknown s g = false -> f_num g = f_num f -> g = f.

Lemma last_value_unique fs f : In f fs -> goes_unknown s f = false -> only_one fs f ->
  last_value s fs (f_num f) = Some (f_value f).
Proof.
  intros Hin Hk Hu. unfold last_value, get.
  rewrite (find_unique (fun g => f_num g =? f_num f) f); [reflexivity| | |].
  - apply -> in_rev. unfold known_fields. apply filter_In. split; [exact Hin|rewrite Hk; reflexivity].
  - apply N.eqb_refl.
  - intros g Hg Hp. apply in_rev in Hg. unfold known_fields in Hg. apply filter_In in Hg. destruct Hg as [Hg Hgk].
    apply negb_true_iff in Hgk. apply Hu; [exact Hg|exact Hgk|apply N.eqb_eq; exact Hp].
Qed.

Lemma marked_unique fs f : In f fs -> goes_unknown s f = false -> only_one fs f ->
  marked s fs (f_num f) = f_expanded f.
Proof.
  intros Hin Hk Hu. unfold marked. destruct (f_expanded f) eqn:E.
  - apply existsb_exists. exists f. split; [exact Hin|]. rewrite Hk, N.eqb_refl, E. reflexivity.
  - apply not_true_is_false. intros H. apply existsb_exists in H. destruct H as (g & Hg & Hp).
    repeat (apply andb_prop in Hp; destruct Hp as [Hp ?]). apply negb_true_iff in Hp.
    match goal with H : (f_num g =? f_num f) = true |- _ => apply N.eqb_eq in H; rename H into Hn end.
    rewrite (Hu g Hg Hp Hn) in *. congruence.
Qed.

Theorem known_field_kept o m f mf v' :
  In f (m_fields m) -> goes_unknown s f = false -> only_one (m_fields m) f ->
  In mf (ms_fields s) -> mf_num mf = f_num f ->
  norm_value (mf_acc mf) (Some (f_value f)) = Some v' ->
  (f_expanded f = true -> expandable s (f_num f) = true /\ include_expanded o = true) ->
  In (created fac s (f_num f) v' (f_expanded f)) (m_fields (normalise fac s o m)).
Proof.
  intros Hin Hk Hu Hmf Hn Hv He. unfold normalise. cbn [m_fields]. apply in_app_iff. left.
  apply in_flat_map. exists mf. split; [exact Hmf|]. unfold norm_field.
  rewrite Hn, (last_value_unique _ f Hin Hk Hu), Hv, (marked_unique _ f Hin Hk Hu).
  destruct (f_expanded f) eqn:E.
  - destruct (He eq_refl) as [-> ->]. cbn. left. reflexivity.
  - rewrite andb_false_r. cbn. left. reflexivity.
Qed.
End Kept.
