(* C05, value level, for every component of the profile that is at most 16 bits wide: the raw value the expansion writes into the
   destination field -- bits / component scale - component offset, then + destination offset, x destination scale, through
   float64 and the final integer conversion -- equals the EXACT rational value of that formula rounded half away from zero,
   for every raw bit pattern of the component.  A complete sweep (every profile component x every value of its width) by
   vm_compute over the decoder model's own float pipeline (Model/F64.v, primitive floats). *)
From Coq Require Import NArith ZArith QArith List Bool Floats Lia.
Import ListNotations.
From Fit Require Import Model.Decoder Model.F64 gen.Factory Proofs.GrammarProofs.
Open Scope N_scope.

Definition q_of_float (f : float) : option Q :=
  match Prim2SF f with
  | S754_zero _ => Some 0%Q
  | S754_finite s m e =>
      let q := if (0 <=? e)%Z then inject_Z (Z.pos m * 2 ^ e) else Qmake (Z.pos m) (Z.to_pos (2 ^ (- e))) in
      Some (if s then Qopp q else q)
  | _ => None
  end.
(* round half away from zero (math.Round) of a rational *)
Definition q_round (q : Q) : Z :=
  let n := Qnum q in let d := Z.pos (Qden q) in
  let r := ((2 * Z.abs n + d) / (2 * d))%Z in if (n <? 0)%Z then (- r)%Z else r.
Definition exact_value (v : N) (cs co ds do_ : float) : option Z :=
  match q_of_float cs, q_of_float co, q_of_float ds, q_of_float do_ with
  | Some a, Some b, Some c, Some d => Some (q_round (Qmult (Qplus (Qminus (Qdiv (inject_Z (Z.of_N v)) a) b) d) c))
  | _, _, _, _ => None
  end.
Definition pipeline (v : N) (cs co ds do_ : float) : N :=
  f64_to_u32_mode mode_expand (so_discard (so_apply v cs co) ds do_).
Definition value_ok (cs co ds do_ : float) (v : N) : bool :=
  match exact_value v cs co ds do_ with
  | Some z => pipeline v cs co ds do_ =? Z.to_N (z mod 4294967296)%Z
  | None => false
  end.

(* destination of a component of message m: the profile's field (scale, offset); unknown destination: scale 1, offset 0 *)
Definition dest_so (m : N) (c : comp) : float * float :=
  let f := create_field m (c_num c) in (f64_of_bits (fb_scale (f_fb f)), f64_of_bits (fb_offset (f_fb f))).
Definition comp_ok (m : N) (c : comp) : bool :=
  if 16 <? c_bits c then true else
  let '(ds, do_) := dest_so m c in
  forallb (value_ok (f64_of_bits (c_scale c)) (f64_of_bits (c_offset c)) ds do_) (nrange (N.to_nat (2 ^ c_bits c)) 0).
Definition all_comps (fb : fieldbase) : list comp := fb_comps fb ++ flat_map s_comps (fb_subs fb).
Definition small_components_exact (t : mesgtable) : bool :=
  forallb (fun mf => forallb (fun fb => forallb (comp_ok (fst mf)) (all_comps fb)) (snd mf)) t.
Definition count_small (t : mesgtable) : N :=
  N.of_nat (length (filter (fun c => c_bits c <=? 16) (flat_map (fun mf => flat_map all_comps (snd mf)) t))).
(* the distinct (width, component scale/offset, destination scale/offset) tuples of the small components *)
Definition tuple := (N * N * N * N * N)%type.
Definition tuple_eqb (a b : tuple) : bool :=
  let '(a1, a2, a3, a4, a5) := a in let '(b1, b2, b3, b4, b5) := b in (a1 =? b1) && (a2 =? b2) && (a3 =? b3) && (a4 =? b4) && (a5 =? b5).
Definition tuple_of (m : N) (c : comp) : tuple :=
  let f := create_field m (c_num c) in (c_bits c, c_scale c, c_offset c, fb_scale (f_fb f), fb_offset (f_fb f)).
Fixpoint dedup (l : list tuple) (acc : list tuple) : list tuple :=
  match l with [] => rev acc | x :: r => if existsb (tuple_eqb x) acc then dedup r acc else dedup r (x :: acc) end.
Definition small_tuples (t : mesgtable) : list tuple :=
  dedup (flat_map (fun mf => map (tuple_of (fst mf)) (filter (fun c => c_bits c <=? 16) (flat_map all_comps (snd mf)))) t) [].
Definition exact_q (a b c d : Q) (v : N) : Z := q_round (Qmult (Qplus (Qminus (Qdiv (inject_Z (Z.of_N v)) a) b) d) c).
Definition tuple_ok (x : tuple) : bool :=
  let '(bits, cs, co, ds, do_) := x in
  let fcs := f64_of_bits cs in let fco := f64_of_bits co in let fds := f64_of_bits ds in let fdo := f64_of_bits do_ in
  match q_of_float fcs, q_of_float fco, q_of_float fds, q_of_float fdo with
  | Some a, Some b, Some c, Some d =>
      forallb (fun v => pipeline v fcs fco fds fdo =? Z.to_N (exact_q a b c d v mod 4294967296)%Z) (nrange (N.to_nat (2 ^ bits)) 0)
  | _, _, _, _ => false
  end.

Lemma tuple_eqb_eq a b : tuple_eqb a b = true <-> a = b.
Proof.
  destruct a as [[[[a1 a2] a3] a4] a5], b as [[[[b1 b2] b3] b4] b5]. cbn [tuple_eqb]. rewrite !andb_true_iff, !N.eqb_eq.
  split; [intros [[[[-> ->] ->] ->] ->]; reflexivity|intros H; injection H as -> -> -> -> ->; repeat split].
Qed.
Lemma dedup_complete : forall l acc x, In x l \/ In x acc -> In x (dedup l acc).
Proof.
  induction l as [|y l IH]; intros acc x H; cbn [dedup].
  - destruct H as [[]|H]. apply in_rev in H. rewrite <- in_rev. rewrite <- in_rev in H. exact H.
  - destruct (existsb (tuple_eqb y) acc) eqn:E.
    + apply IH. destruct H as [[-> | H] | H]; [right|left; exact H|right; exact H].
      apply existsb_exists in E. destruct E as (z & Hz & Ez). apply tuple_eqb_eq in Ez. subst z. exact Hz.
    + apply IH. destruct H as [[-> | H] | H]; [right; left; reflexivity|left; exact H|right; right; exact H].
Qed.

Theorem small_tuples_exact : forallb tuple_ok (small_tuples mesgs) = true.
Proof. vm_compute. reflexivity. Qed.

(* every component of the profile of at most 16 bits, every raw value of its width: the model's float pipeline yields the exact
   rational value rounded half away from zero (modulo 2^32, which never bites for these widths) *)
Theorem small_component_values_exact m fbs fb c v : In (m, fbs) mesgs -> In fb fbs -> In c (all_comps fb) -> c_bits c <= 16 -> v < 2 ^ c_bits c ->
  let '(ds, do_) := dest_so m c in
  exists z, exact_value v (f64_of_bits (c_scale c)) (f64_of_bits (c_offset c)) ds do_ = Some z /\
            pipeline v (f64_of_bits (c_scale c)) (f64_of_bits (c_offset c)) ds do_ = Z.to_N (z mod 4294967296)%Z.
Proof.
  intros Hm Hf Hc Hb Hv. unfold dest_so.
  assert (Hin : In (tuple_of m c) (small_tuples mesgs)).
  { unfold small_tuples. apply dedup_complete. left. apply in_flat_map. exists (m, fbs). split; [exact Hm|]. cbn [fst snd].
    apply in_map. apply filter_In. split; [|apply N.leb_le; exact Hb]. apply in_flat_map. exists fb. split; assumption. }
  pose proof small_tuples_exact as H. rewrite forallb_forall in H. specialize (H _ Hin). unfold tuple_of, tuple_ok in H.
  unfold exact_value.
  destruct (q_of_float (f64_of_bits (c_scale c))) as [a|]; [|discriminate].
  destruct (q_of_float (f64_of_bits (c_offset c))) as [b|]; [|discriminate].
  destruct (q_of_float (f64_of_bits (fb_scale (f_fb (create_field m (c_num c)))))) as [c'|]; [|discriminate].
  destruct (q_of_float (f64_of_bits (fb_offset (f_fb (create_field m (c_num c)))))) as [d|]; [|discriminate].
  rewrite forallb_forall in H. eexists. split; [reflexivity|]. apply N.eqb_eq. apply H. apply in_nrange.
  rewrite N2Nat.id. lia.
Qed.
