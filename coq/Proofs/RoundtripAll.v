(* C01, sequence level in full generality for the compressed-timestamp header option: developer fields AND timestamps moved into
   record headers.  Generalises Proofs/RoundtripComp.v (no developer fields) with the developer-field machinery of
   Proofs/RoundtripDev.v: definitions with a developer part, data records -- with a normal or a compressed-timestamp header -- that
   carry developer values after the field values, the field description list growing with the decoded messages, the decoder's
   clock following the decoded timestamps. *)
From Coq Require Import NArith ZArith List Lia Bool ZifyN ZifyNat ZifyBool.
Import ListNotations.
From Fit Require Import Model.Encoder Proofs.CrcProofs Proofs.ValueProofs Proofs.EncoderProofs Proofs.AcceptProofs Proofs.IntegrityModel Proofs.GrammarProofs
  Proofs.TimestampProofs Proofs.DecoderWire Proofs.DecodeCrc Proofs.RoundtripSeq Proofs.RoundtripComp Proofs.RoundtripDev Proofs.RoundtripChain Proofs.RoundtripCk.
Open Scope N_scope.
#[local] Arguments N.add : simpl never.
#[local] Arguments N.mul : simpl never.
#[local] Arguments N.sub : simpl never.

(* ---------------------------------------------------------------- forward: the clock after one record, developer fields allowed *)
Lemma decode_data_body_clock_d c s header d fs0 : c_expand c = false ->
  wpost (decode_data_body c s header d fs0)
        (fun s' => exists added devs, s_msgs s' = mkmsg header (md_num d) (fs0 ++ added) devs :: s_msgs s /\ clk s' = clock_after added (clk s)).
Proof.
  intros Hex. unfold decode_data_body.
  eapply wpost_bind; [apply (decode_fields_clock c _ _ Hex)|]. intros [fs s1] (added & Ha & Hc & Hm1). cbn [fst snd] in *. cbv beta iota zeta. rewrite Hex. cbn [fst snd].
  set (s3 := match s_fileid s1 with None => if md_num d =? mesgnum_FileId then upd_fileid s1 (Some (mkmsg header (md_num d) fs [])) else s1 | Some _ => s1 end).
  assert (H3 : clk s3 = clk s1 /\ s_msgs s3 = s_msgs s1) by (unfold s3; destruct (s_fileid s1); [split; reflexivity|]; destruct (md_num d =? mesgnum_FileId); split; reflexivity).
  set (s4 := if md_num d =? mesgnum_DeveloperDataId then upd_dev s3 (s_devidx s3 ++ [u8_of (field_value_by_num fs fn_DeveloperDataId_DeveloperDataIndex)]) (s_fdescs s3)
             else if md_num d =? mesgnum_FieldDescription then upd_dev s3 (s_devidx s3) (s_fdescs s3 ++ [new_field_description fs]) else s3).
  assert (H4 : clk s4 = clk s3 /\ s_msgs s4 = s_msgs s3).
  { unfold s4. destruct (md_num d =? mesgnum_DeveloperDataId); [split; reflexivity|]. destruct (md_num d =? mesgnum_FieldDescription); split; reflexivity. }
  clearbody s3 s4.
  eapply (wpost_bind _ _ (fun r3 => clk (snd r3) = clk s4 /\ s_msgs (snd r3) = s_msgs s4)).
  - destruct (md_devs d) as [|d0 ds]; [cbn; split; reflexivity|]. apply decode_dev_fields_clk.
  - intros [dv s5] [H5 M5]. cbn [fst snd] in *. cbn. exists added, dv. destruct H3 as [H3 M3]. destruct H4 as [H4 M4].
    split; [rewrite M5, M4, M3, Hm1, Ha; reflexivity|]. change (clk (push_msg s5 _)) with (clk s5). rewrite H5, H4, H3. exact Hc.
Qed.

Definition rec_clock_d (s s' : dstate) : Prop :=
  (s_msgs s' = s_msgs s /\ clk s' = clk s) \/
  exists header num added fs0 devs, s_msgs s' = mkmsg header num (fs0 ++ added) devs :: s_msgs s /\
    ((has header MesgCompressedHeaderMask = false /\ fs0 = [] /\ clk s' = clock_after added (clk s)) \/
     (has header MesgCompressedHeaderMask = true /\
      let ck := clock_compressed (s_ts s) (s_lto s) header in
      exists tsf, fs0 = [tsf] /\ f_value tsf = VNum TU32 (fst ck) /\ clk s' = clock_after added ck)).

Lemma decode_message_clock_d c s : c_expand c = false -> wpost (decode_message c s) (rec_clock_d s).
Proof.
  intros Hex. unfold decode_message.
  eapply wpost_bind; [apply wpost_conj; [apply read_n_clk|apply read_n_defs]|]. intros [b s1] [[H1 M1] D1]. cbn [fst snd] in *. cbv beta iota zeta.
  eapply wpost_bind; [apply wpost_any|]. intros header _.
  destruct (N.land header (N.lor MesgCompressedHeaderMask MesgDefinitionMask) =? MesgDefinitionMask).
  - unfold decode_definition.
    eapply wpost_bind; [apply read_n_clk|]. intros [b2 s2] [H2 M2]. cbn [fst snd] in *. cbv beta iota zeta.
    do 4 (eapply wpost_bind; [apply wpost_any|]; intros ? _).
    eapply wpost_bind; [apply read_n_clk|]. intros [b3 s3] [H3 M3]. cbn [fst snd] in *. cbv beta iota zeta.
    eapply wpost_bind; [apply wpost_any|]. intros fds _.
    eapply (wpost_bind _ _ (fun r2 => clk (snd r2) = clk s3 /\ s_msgs (snd r2) = s_msgs s3)).
    + destruct (has header DevDataMask); [|cbn; split; reflexivity].
      eapply wpost_bind; [apply read_n_clk|]. intros [b4 s4] [H4 M4]. cbn [fst snd] in *. cbv beta iota zeta.
      eapply wpost_bind; [apply wpost_any|]. intros m _.
      eapply wpost_bind; [apply read_n_clk|]. intros [b5 s5] [H5 M5]. cbn [fst snd] in *. cbv beta iota zeta.
      cbn. split; congruence.
    + intros [dds s6] [H6 M6]. cbn [fst snd] in *. cbn. left. split; [cbn; congruence|].
      change (clk (push_event (upd_defs s6 _) _)) with (clk s6). congruence.
  - unfold decode_data. cbv zeta. rewrite D1.
    destruct (nth _ (s_defs s) None) as [d|] eqn:En; [|exact I].
    destruct (has header MesgCompressedHeaderMask) eqn:Ecomp.
    + set (ck := clock_compressed (s_ts s1) (s_lto s1) header).
      eapply wpost_weaken; [apply (decode_data_body_clock_d c _ header d _ Hex)|].
      intros s' (added & devs & Hm & Hc). right. exists header, (md_num d), added. eexists. exists devs. split; [rewrite Hm; cbn [upd_time s_msgs]; rewrite M1; reflexivity|].
      right. split; [exact Ecomp|]. cbv zeta. eexists. split; [reflexivity|].
      assert (Hck : clock_compressed (s_ts s) (s_lto s) header = ck) by (unfold ck; injection H1 as -> ->; reflexivity).
      rewrite Hck. split; [reflexivity|]. rewrite Hc. f_equal; unfold clk; cbn [upd_time s_ts s_lto]; destruct ck; reflexivity.
    + eapply wpost_weaken; [apply (decode_data_body_clock_d c _ header d _ Hex)|].
      intros s' (added & devs & Hm & Hc). right. exists header, (md_num d), added, [], devs. split; [rewrite Hm, M1; reflexivity|].
      left. split; [exact Ecomp|]. split; [reflexivity|]. rewrite Hc, H1. reflexivity.
Qed.

Lemma def_clock_d dc s s1 : c_expand dc = false -> decode_message dc s = Ok s1 -> s_msgs s1 = s_msgs s -> clk s1 = clk s.
Proof.
  intros Hex D M. pose proof (decode_message_clock_d dc s Hex) as W. rewrite D in W. destruct W as [[_ H]|(h & n & a & f0 & dv & Hm & _)]; [exact H|].
  rewrite M in Hm. symmetry in Hm. exfalso. eapply cons_neq; exact Hm.
Qed.
Lemma data_clock_d dc s s2 hb num fs devs : c_expand dc = false -> decode_message dc s = Ok s2 ->
  s_msgs s2 = mkmsg hb num fs devs :: s_msgs s -> has hb MesgCompressedHeaderMask = false -> clk s2 = clock_after fs (clk s).
Proof.
  intros Hex D M Hh. pose proof (decode_message_clock_d dc s Hex) as W. rewrite D in W. destruct W as [[Hm _]|(h & n & a & f0 & dv & Hm & Hc)].
  - rewrite M in Hm. exfalso. eapply cons_neq; exact Hm.
  - rewrite M in Hm. injection Hm as -> -> Hf _. destruct Hc as [(_ & -> & Hc)|(Hc & _)]; [cbn [app] in Hf; subst a; exact Hc|congruence].
Qed.
Lemma comp_clock_d dc s s2 hb num tsf fs devs : c_expand dc = false -> decode_message dc s = Ok s2 ->
  s_msgs s2 = mkmsg hb num (tsf :: fs) devs :: s_msgs s -> has hb MesgCompressedHeaderMask = true ->
  clk s2 = clock_after fs (clock_compressed (s_ts s) (s_lto s) hb).
Proof.
  intros Hex D M Hh. pose proof (decode_message_clock_d dc s Hex) as W. rewrite D in W. destruct W as [[Hm _]|(h & n & a & f0 & dv & Hm & Hc)].
  - rewrite M in Hm. exfalso. eapply cons_neq; exact Hm.
  - rewrite M in Hm. injection Hm as -> -> Hf _. destruct Hc as [(Hc & _)|(_ & Hc)]; [congruence|]. cbv zeta in Hc.
    destruct Hc as (t0 & -> & _ & Hc). cbn [app] in Hf. injection Hf as _ <-. exact Hc.
Qed.

(* ---------------------------------------------------------------- a data record with a compressed-timestamp header and developer fields *)
(* [m] is the message as it goes out: its timestamp field already removed *)
Lemma comp_record_rtd dc big m t i body tail s fbts : c_expand dc = false -> 765 <= c_bufsize dc -> msg_rtd big (s_fdescs s) m -> t < 32 -> i < 4 ->
  marshal_values big (map f_value (m_fields m) ++ map df_value (m_devs m)) = Some body -> s_rest s = (comp_hdr t i :: body) ++ tail -> bufok s ->
  nth (N.to_nat i) (s_defs s) None = Some (dwith i (new_definition big m)) ->
  create_field (m_num m) FieldNumTimestamp = mkfield fbts true VInvalid false ->
  m_num m <> mesgnum_FieldDescription ->
  exists s', decode_message dc s = Ok s' /\ rec_post (1 + len body) s s' /\ s_rest s' = tail /\ s_defs s' = s_defs s
             /\ s_msgs s' = mkmsg (comp_hdr t i) (m_num m)
                              (mkfield fbts true (VNum TU32 (fst (clock_compressed (s_ts s) (s_lto s) (N.lor MesgCompressedHeaderMask t)))) false :: m_fields m) (m_devs m) :: s_msgs s
             /\ s_fdescs s' = s_fdescs s.
Proof.
  intros Hex Hbuf Hm Ht Hi Hbody Hrest Hb Hdef Htf Hnfd.
  rewrite new_definition_d in Hdef. unfold dwith in Hdef. cbn [md_header md_reserved md_arch md_num md_fields md_devs] in Hdef.
  destruct Hm as (Hl & Hld & Hnum & Hf & Hdv).
  assert (Hnext : next_fds (s_fdescs s) m = s_fdescs s) by (unfold next_fds; replace (m_num m =? mesgnum_FieldDescription) with false by (symmetry; apply N.eqb_neq; exact Hnfd); reflexivity).
  rewrite Hnext in Hdv.
  destruct (marshal_values_app _ _ _ _ Hbody) as (b1 & b2 & Hb1 & Hb2 & ->).
  pose proof (comp_hdr_facts t i Ht Hi) as Hh. unfold comp_hdr_ok in Hh. cbv zeta in Hh.
  apply andb_prop in Hh. destruct Hh as [Hh Hclk]. apply andb_prop in Hh. destruct Hh as [Hh Hloc]. apply andb_prop in Hh. destruct Hh as [Hnotdef Hcomp].
  apply negb_true_iff in Hnotdef. apply N.eqb_eq in Hloc. apply N.eqb_eq in Hclk.
  set (hb := comp_hdr t i) in *.
  cbn [app] in Hrest. unfold decode_message.
  destruct (read_n_totald dc s 1 Hb ltac:(lia) Hbuf) as (s1 & E1 & [G1 Q1]); [rewrite Hrest; unfold len; cbn [length]; lia|].
  rewrite E1, Hrest. change (take 1 (hb :: ?x)) with [hb]. cbn [bind byte_at nth_opt]. rewrite Hnotdef.
  pose proof G1 as (R1 & B1 & C1 & K1d & K1h & K1m). rewrite Hrest in R1. change (drop 1 (hb :: ?x)) with x in R1. rewrite <- app_assoc in R1.
  assert (Hclk1 : clk s1 = clk s) by (pose proof (read_n_clk dc s 1) as W; rewrite E1 in W; apply W).
  unfold decode_data. rewrite Hcomp. cbv zeta. rewrite Hloc, K1d, Hdef. cbn [md_num].
  rewrite Htf. cbn [f_known].
  injection Hclk1 as Hts1 Hlto1. rewrite Hts1, Hlto1.
  set (ck := clock_compressed (s_ts s) (s_lto s) hb).
  assert (Hck : fst ck = fst (clock_compressed (s_ts s) (s_lto s) (N.lor MesgCompressedHeaderMask t))) by (unfold ck, clock_compressed; rewrite Hclk; reflexivity).
  set (s1t := upd_time s1 (fst ck) (snd ck)).
  unfold decode_data_body. cbn [md_arch md_num md_fields md_devs].
  assert (R1t : s_rest s1t = b1 ++ b2 ++ tail) by exact R1. assert (B1t : bufok s1t) by exact B1.
  set (tsf := set_value (mkfield fbts true VInvalid false) (VNum TU32 (fst ck))).
  destruct (decode_fields_rt dc big (m_num m) Hex Hbuf (m_fields m) s1t [tsf] b1 (b2 ++ tail) Hf Hb1 R1t B1t)
    as (s2 & Ed & G2); [change (s_cur s1t) with (s_cur s1); rewrite C1; apply (wrap_lt 32)|].
  assert (Q2 : s_fdescs s2 = s_fdescs s1) by (pose proof (decode_fields_fdescs dc (arch_of big) (m_num m) Hex (map fdef_of (m_fields m)) s1t [tsf]) as W; rewrite Ed in W; exact W).
  rewrite Ed. cbn [bind fst snd app]. rewrite Hex. cbn [fst snd].
  pose proof G2 as (R2 & B2 & C2 & K2d & K2h & K2m). rewrite R1t, drop_app_len in R2.
  change (s_cur s1t) with (s_cur s1) in C2. change (s_defs s1t) with (s_defs s1) in K2d. change (s_header s1t) with (s_header s1) in K2h. change (s_msgs s1t) with (s_msgs s1) in K2m.
  match goal with |- context [match map ddef_of (m_devs m) with [] => Ok ([], ?X) | _ => _ end] => set (s4 := X) end.
  assert (H4 : sameM s2 s4 /\ s_fdescs s4 = s_fdescs s2).
  { unfold s4. replace (m_num m =? mesgnum_FieldDescription) with false by (symmetry; apply N.eqb_neq; exact Hnfd).
    destruct (m_num m =? mesgnum_DeveloperDataId), (s_fileid s2), (m_num m =? mesgnum_FileId); split; try reflexivity; repeat split. }
  destruct H4 as [H4 Q4].
  assert (G4 : got (len b1) s1t s4) by (eapply got_sameM; [exact G2|exact H4]).
  assert (R4 : s_rest s4 = b2 ++ tail) by (destruct H4 as (P1 & _); rewrite P1; exact R2).
  assert (Qall : s_fdescs s4 = s_fdescs s) by (rewrite Q4, Q2, Q1; reflexivity).
  clearbody s4.
  pose proof G4 as (R4' & B4 & C4 & K4d & K4h & K4m).
  change (s_cur s1t) with (s_cur s1) in C4. change (s_defs s1t) with (s_defs s1) in K4d. change (s_header s1t) with (s_header s1) in K4h. change (s_msgs s1t) with (s_msgs s1) in K4m.
  assert (Hfld : tsf :: m_fields m = mkfield fbts true (VNum TU32 (fst (clock_compressed (s_ts s) (s_lto s) (N.lor MesgCompressedHeaderMask t)))) false :: m_fields m).
  { f_equal. unfold tsf. cbn [set_value f_fb f_known f_expanded]. rewrite Hck. reflexivity. }
  destruct (m_devs m) as [|d0 ds] eqn:Edevs.
  - cbn [map marshal_values] in Hb2. injection Hb2 as <-. cbn [map bind fst snd]. rewrite app_nil_r in *.
    eexists. split; [reflexivity|].
    unfold rec_post, bufok in *. cbn [push_msg s_rest s_buf s_cur s_header s_defs s_msgs s_fdescs].
    split; [|split; [exact R4|split; [congruence|split; [rewrite K4m, K1m, Hfld; reflexivity|exact Qall]]]].
    split; [rewrite R4, Hrest; change (hb :: b1 ++ tail) with ((hb :: b1) ++ tail); replace (1 + len b1) with (len (hb :: b1)) by (unfold len; cbn [length]; lia); rewrite drop_app_len; reflexivity|].
    split; [exact B4|]. split; [|congruence]. rewrite C4, C1, wrap_add, N.add_assoc. reflexivity.
  - rewrite <- Edevs in *. clear Edevs.
    assert (Hdv4 : Forall (dev_rt big (s_fdescs s4)) (m_devs m)) by (rewrite Qall; exact Hdv).
    destruct (decode_dev_fields_rt dc big Hbuf (m_devs m) s4 [] b2 tail Hdv4 Hb2 R4 B4) as (s5 & Edv & [G5 Q5]); [rewrite C4, C1; apply (wrap_lt 32)|].
    assert (Hmatch : match map ddef_of (m_devs m) with [] => Ok ([], s4) | dds => decode_dev_fields dc s4 (arch_of big) dds [] end = Ok (m_devs m, s5)).
    { destruct (m_devs m) eqn:E; [cbn in Edv |- *; exact Edv|exact Edv]. }
    rewrite Hmatch. cbn [bind fst snd].
    eexists. split; [reflexivity|]. pose proof G5 as (R5 & B5 & C5 & K5d & K5h & K5m).
    unfold rec_post, bufok in *. cbn [push_msg s_rest s_buf s_cur s_header s_defs s_msgs s_fdescs].
    split; [|split; [rewrite R5, R4, drop_app_len; reflexivity|split; [congruence|split; [rewrite K5m, K4m, K1m, Hfld; reflexivity|congruence]]]].
    split; [rewrite R5, R4, drop_app_len, Hrest; change (hb :: (b1 ++ b2) ++ tail) with ((hb :: b1 ++ b2) ++ tail); replace (1 + len (b1 ++ b2)) with (len (hb :: b1 ++ b2)) by (unfold len; cbn [length]; lia); rewrite drop_app_len; reflexivity|].
    split; [exact B5|]. split; [|congruence]. rewrite C5, C4, C1. rewrite wrap_add, <- N.add_assoc, wrap_add, len_app. f_equal. lia.
Qed.

(* ---------------------------------------------------------------- one message *)
Lemma message_none_d c dc st m b st' s tail ta tb :
  (if e_compressed c then compress_timestamp (es_tsref st) (es_lastts st) m else (None, es_tsref st, es_lastts st)) = (None, ta, tb) ->
  c_expand dc = false -> 765 <= c_bufsize dc -> msg_rtd (e_big c) (s_fdescs s) m ->
  linv (es_lru st) -> (0 < length (l_items (es_lru st)) <= 16)%nat -> dinvd (es_lru st) (s_defs s) -> length (s_defs s) = 16%nat ->
  encode_message c st m = Ok (b, st') -> s_rest s = b ++ tail -> bufok s ->
  s_cur s + len b <= h_datasize (s_header s) -> h_datasize (s_header s) < 4294967296 ->
  exists s' k mh, (1 <= k)%nat /\ N.of_nat k <= len b /\ (forall fuel, decode_messages (k + fuel) dc s = decode_messages fuel dc s')
    /\ s_rest s' = tail /\ bufok s' /\ s_cur s' = s_cur s + len b /\ s_header s' = s_header s
    /\ s_msgs s' = mkmsg mh (m_num m) (m_fields m) (m_devs m) :: s_msgs s /\ s_fdescs s' = next_fds (s_fdescs s) m
    /\ linv (es_lru st') /\ length (l_items (es_lru st')) = length (l_items (es_lru st)) /\ dinvd (es_lru st') (s_defs s') /\ length (s_defs s') = 16%nat
    /\ clk s' = clock_after (m_fields m) (clk s) /\ es_lastts st' = tb.
Proof.
  intros Hcmp Hex Hbuf Hm Hli Hsz Hdinv Hl16 Henc Hrest Hb Hcur Hds.
  unfold encode_message, encode_message_chunks, bind in Henc. rewrite Hcmp in Henc.
  set (m2 := mkmsg MesgNormalHeaderMask (m_num m) (m_fields m) (m_devs m)) in Henc.
  change (new_definition (e_big c) m2) with (new_definition (e_big c) m) in Henc.
  pose proof (new_definition_rtd (e_big c) _ m Hm) as Hdrt.
  set (d := new_definition (e_big c) m) in *.
  destruct (marshal_def_cons d) as (h0 & r0 & Emd & Hh0). rewrite Emd in Henc.
  destruct (lru_put (es_lru st) (h0 :: r0)) as [[local isnew] lru'] eqn:Ep.
  destruct (lru_put_spec _ _ _ _ _ Hli ltac:(lia) Ep) as (Hli' & Hlen' & Hidx & Hitems).
  assert (Hl : local < 16) by lia.
  unfold marshal_message in Henc. cbn [m_fields m_devs m2] in Henc.
  destruct (marshal_values (e_big c) (map f_value (m_fields m) ++ map df_value (m_devs m))) as [body|] eqn:Ebody; [|destruct isnew; discriminate].
  change (N.lor MesgNormalHeaderMask local) with (N.lor 0 local) in Henc. rewrite N.lor_0_l in Henc.
  assert (Hcs : s_cur s < 4294967296) by lia.
  destruct (hdr_facts local Hl) as [Hdh _]. unfold data_hdr_ok in Hdh. apply andb_prop in Hdh. destruct Hdh as [Hdh _]. apply andb_prop in Hdh. destruct Hdh as [_ Hnotc].
  apply negb_true_iff in Hnotc.
  destruct isnew.
  - cbv beta iota delta [fst snd m_header] in Henc.
    match type of Henc with Ok (?x, ?y) = Ok _ => assert (Eb : b = x) by congruence; assert (Est : st' = y) by congruence end. subst b st'. clear Henc. cbv beta iota delta [es_lru es_lastts].
    change (concat ([N.lor h0 local :: r0] ++ [local :: body])) with ((N.lor h0 local :: r0) ++ (local :: body) ++ []) in *. rewrite app_nil_r in *.
    rewrite <- app_assoc in Hrest.
    destruct (def_record_rtd dc d local ((local :: body) ++ tail) s Hbuf Hdrt Hl) as (s1 & D1 & (R1 & B1 & C1 & H1) & T1 & F1 & M1 & Q1); [rewrite Emd; exact Hrest|exact Hb|].
    rewrite Emd in C1.
    assert (Hdef1 : nth (N.to_nat local) (s_defs s1) None = Some (dwith local d)) by (rewrite F1; apply nth_replace_same; lia).
    assert (Hm1 : msg_rtd (e_big c) (s_fdescs s1) m) by (rewrite Q1; exact Hm).
    destruct (data_record_rtd dc (e_big c) m local body tail s1 Hex Hbuf Hm1 Hl Ebody T1 B1 Hdef1) as (s2 & D2 & (R2 & B2 & C2 & H2) & T2 & F2 & M2 & Q2).
    pose proof (def_clock_d dc s s1 Hex D1 M1) as Hk1. pose proof (data_clock_d dc s1 s2 _ _ _ _ Hex D2 M2 Hnotc) as Hk2.
    rewrite len_app in Hcur. assert (Ld : len (N.lor h0 local :: r0) = len (h0 :: r0)) by reflexivity.
    assert (Lb : len (local :: body) = 1 + len body) by (unfold len; cbn [length]; lia).
    assert (C1' : s_cur s1 = s_cur s + len (h0 :: r0)) by (rewrite C1; apply wrap32_small; lia).
    assert (C2' : s_cur s2 = s_cur s + len (h0 :: r0) + (1 + len body)) by (rewrite C2, C1'; apply wrap32_small; lia).
    exists s2, 2%nat, local. split; [lia|]. split; [rewrite len_app, Lb; unfold len; cbn [length]; lia|].
    split. { intros fuel. change (2 + fuel)%nat with (S (S fuel)). rewrite (decode_messages_step _ _ _ _ D1) by lia.
             apply decode_messages_step; [exact D2|]. rewrite H1. lia. }
    split; [exact T2|]. split; [exact B2|]. split; [rewrite C2', len_app, Ld, Lb; lia|]. split; [congruence|].
    split; [rewrite M2, M1; reflexivity|]. split; [rewrite Q2, Q1; reflexivity|]. split; [exact Hli'|]. split; [exact Hlen'|]. split; [|split; [rewrite F2, F1, replace_nth_length; exact Hl16|split; [rewrite Hk2, Hk1; reflexivity|reflexivity]]].
    intros j Hj Hne. rewrite Hitems in Hne |- *. rewrite Hlen' in Hj. rewrite F2, F1.
    destruct (Nat.eq_dec j (N.to_nat local)) as [->|Hneq].
    + rewrite !nth_replace_same by lia. exists d. split; [exact Hdrt|]. split; [symmetry; exact Emd|]. rewrite N2Nat.id. reflexivity.
    + rewrite nth_replace_other in Hne |- * by congruence. rewrite nth_replace_other by congruence. apply Hdinv; assumption.
  - destruct Hitems as [Hsame Hnth].
    cbv beta iota delta [fst snd m_header] in Henc.
    match type of Henc with Ok (?x, ?y) = Ok _ => assert (Eb : b = x) by congruence; assert (Est : st' = y) by congruence end. subst b st'. clear Henc. cbv beta iota delta [es_lru es_lastts].
    change (concat ([] ++ [local :: body])) with ((local :: body) ++ []) in *. rewrite app_nil_r in *.
    destruct (Hdinv (N.to_nat local) Hidx) as (d0 & Hd0 & Hi0 & Hdef0); [rewrite Hnth; discriminate|].
    assert (Hdd : d0 = d) by (apply marshal_def_injd; [exact Hd0|exact Hdrt|rewrite <- Hi0, Hnth; symmetry; exact Emd]). subst d0.
    rewrite N2Nat.id in Hdef0.
    destruct (data_record_rtd dc (e_big c) m local body tail s Hex Hbuf Hm Hl Ebody Hrest Hb Hdef0) as (s2 & D2 & (R2 & B2 & C2 & H2) & T2 & F2 & M2 & Q2).
    pose proof (data_clock_d dc s s2 _ _ _ _ Hex D2 M2 Hnotc) as Hk2.
    assert (Lb : len (local :: body) = 1 + len body) by (unfold len; cbn [length]; lia).
    exists s2, 1%nat, local. split; [lia|]. split; [rewrite Lb; lia|].
    split. { intros fuel. apply decode_messages_step; [exact D2|]. lia. }
    split; [exact T2|]. split; [exact B2|]. split; [rewrite C2, Lb; apply wrap32_small; lia|]. split; [exact H2|].
    split; [exact M2|]. split; [exact Q2|]. split; [exact Hli'|]. split; [exact Hlen'|]. split; [|split; [rewrite F2; exact Hl16|split; [exact Hk2|reflexivity]]].
    intros j Hj Hne. rewrite Hsame in *. rewrite F2. apply Hdinv; assumption.
Qed.

Lemma message_some_d c dc st m b st' s tail h fs' ta tb :
  e_compressed c = true -> compress_timestamp (es_tsref st) (es_lastts st) m = (Some (h, fs'), ta, tb) ->
  c_expand dc = false -> 765 <= c_bufsize dc -> msg_rtd (e_big c) (s_fdescs s) m -> ts_unique (m_fields m) -> ts_known m -> m_num m <> mesgnum_FieldDescription ->
  linv (es_lru st) -> (0 < length (l_items (es_lru st)) <= 4)%nat -> dinvd (es_lru st) (s_defs s) -> length (s_defs s) = 16%nat ->
  encode_message c st m = Ok (b, st') -> s_rest s = b ++ tail -> bufok s ->
  s_cur s + len b <= h_datasize (s_header s) -> h_datasize (s_header s) < 4294967296 ->
  exists s' k mh tsv f, (1 <= k)%nat /\ N.of_nat k <= len b /\ (forall fuel, decode_messages (k + fuel) dc s = decode_messages fuel dc s')
    /\ s_rest s' = tail /\ bufok s' /\ s_cur s' = s_cur s + len b /\ s_header s' = s_header s
    /\ field_by_num (m_fields m) FieldNumTimestamp = Some f
    /\ s_msgs s' = mkmsg mh (m_num m) (mkfield (f_fb f) true (VNum TU32 tsv) false :: remove_first_num (m_fields m) FieldNumTimestamp) (m_devs m) :: s_msgs s
    /\ linv (es_lru st') /\ length (l_items (es_lru st')) = length (l_items (es_lru st)) /\ dinvd (es_lru st') (s_defs s') /\ length (s_defs s') = 16%nat
    /\ s_fdescs s' = s_fdescs s /\ clk s' = clock_compressed (s_ts s) (s_lto s) h /\ tsv = fst (clock_compressed (s_ts s) (s_lto s) h) /\ es_lastts st' = tb.
Proof.
  intros Hcomp Hcmp Hex Hbuf Hm Hu Htk Hnfd Hli Hsz Hdinv Hl16 Henc Hrest Hb Hcur Hds.
  destruct (compress_some _ _ _ _ _ _ _ Hcmp) as (t & Ht & -> & ->).
  (* the timestamp field of the message *)
  assert (Hf : exists f ts, field_by_num (m_fields m) FieldNumTimestamp = Some f /\ f_value f = VNum TU32 ts).
  { revert Hcmp. unfold compress_timestamp. destruct encoder_tracks_last_timestamp.
    - unfold ts_field_u32. destruct (field_by_num (m_fields m) FieldNumTimestamp) as [f|]; [|discriminate].
      destruct (f_value f) as [|[] x| | |] eqn:Ev; try discriminate. intros _. exists f, x. split; [reflexivity|exact Ev].
    - unfold field_value_by_num, u32_of. destruct (field_by_num (m_fields m) FieldNumTimestamp) as [f|]; [|cbn; discriminate].
      destruct (f_value f) as [|[] x| | |] eqn:Ev; try (cbn; discriminate). intros _. exists f, x. split; [reflexivity|exact Ev]. }
  destruct Hf as (f & ts & Ef & Evf).
  destruct (field_by_num_spec _ _ _ Ef) as [Hin Hfn].
  pose proof Hm as (Hnf & Hnd' & Hnum & Hfs & Hdvs).
  destruct (Htk f Ef) as (Hcf & Hkn & Hexp).
  set (fs' := remove_first_num (m_fields m) FieldNumTimestamp) in *.
  set (m1 := mkmsg (m_header m) (m_num m) fs' (m_devs m)).
  assert (Hm1 : msg_rtd (e_big c) (s_fdescs s) m1).
  { destruct (remove_first_sub (m_fields m) FieldNumTimestamp) as [S1 S2]. unfold msg_rtd, m1. cbn [m_fields m_devs m_num]. split; [fold fs'; unfold fs'; lia|]. split; [exact Hnd'|]. split; [exact Hnum|].
    split; [apply S2; exact Hfs|]. unfold next_fds in *. cbn [m_num m_fields]. replace (m_num m =? mesgnum_FieldDescription) with false in * by (symmetry; apply N.eqb_neq; exact Hnfd). exact Hdvs. }
  unfold encode_message, encode_message_chunks, bind in Henc. rewrite Hcomp, Hcmp in Henc.
  set (hc := N.lor 128 t) in *.
  set (m2 := mkmsg hc (m_num m) fs' (m_devs m)) in Henc.
  change (new_definition (e_big c) m2) with (new_definition (e_big c) m1) in Henc.
  pose proof (new_definition_rtd (e_big c) _ m1 Hm1) as Hdrt.
  set (d := new_definition (e_big c) m1) in *.
  destruct (marshal_def_cons d) as (h0 & r0 & Emd & Hh0). rewrite Emd in Henc.
  destruct (lru_put (es_lru st) (h0 :: r0)) as [[local isnew] lru'] eqn:Ep.
  destruct (lru_put_spec _ _ _ _ _ Hli ltac:(lia) Ep) as (Hli' & Hlen' & Hidx & Hitems).
  assert (Hl4 : local < 4) by lia. assert (Hl : local < 16) by lia.
  unfold marshal_message in Henc. cbn [m_fields m_devs m2] in Henc.
  destruct (marshal_values (e_big c) (map f_value fs' ++ map df_value (m_devs m))) as [body|] eqn:Ebody; [|destruct isnew; discriminate].
  change (N.lor hc (wrap 8 (N.shiftl local CompressedBitShift))) with (comp_hdr t local) in Henc.
  set (hb := comp_hdr t local) in *.
  assert (Hcs : s_cur s < 4294967296) by lia.
  pose proof (comp_hdr_facts t local Ht Hl4) as Hh. unfold comp_hdr_ok in Hh. cbv zeta in Hh. fold hb in Hh.
  apply andb_prop in Hh. destruct Hh as [Hh Hclk]. apply andb_prop in Hh. destruct Hh as [Hh _]. apply andb_prop in Hh. destruct Hh as [_ Hhcomp].
  apply N.eqb_eq in Hclk.
  assert (Hckeq : forall a0 b0, clock_compressed a0 b0 hb = clock_compressed a0 b0 hc) by (intros; unfold clock_compressed; rewrite Hclk; reflexivity).
  assert (Hnots : forall ck, clock_after fs' ck = ck).
  { intros ck. apply clock_after_none. pose proof (ts_field_first (m_fields m) Hu) as H. rewrite Ef in H. apply H. }
  assert (Hbody1 : marshal_values (e_big c) (map f_value (m_fields m1) ++ map df_value (m_devs m1)) = Some body) by exact Ebody.
  assert (Hnfd1 : m_num m1 <> mesgnum_FieldDescription) by exact Hnfd.
  destruct isnew.
  - cbv beta iota delta [fst snd m_header] in Henc.
    match type of Henc with Ok (?x, ?y) = Ok _ => assert (Eb : b = x) by congruence; assert (Est : st' = y) by congruence end. subst b st'. clear Henc. cbv beta iota delta [es_lru es_lastts].
    change (concat ([N.lor h0 local :: r0] ++ [hb :: body])) with ((N.lor h0 local :: r0) ++ (hb :: body) ++ []) in *. rewrite app_nil_r in *.
    rewrite <- app_assoc in Hrest.
    destruct (def_record_rtd dc d local ((hb :: body) ++ tail) s Hbuf Hdrt Hl) as (s1 & D1 & (R1 & B1 & C1 & H1) & T1 & F1 & M1 & Q1); [rewrite Emd; exact Hrest|exact Hb|].
    rewrite Emd in C1.
    assert (Hdef1 : nth (N.to_nat local) (s_defs s1) None = Some (dwith local d)) by (rewrite F1; apply nth_replace_same; lia).
    pose proof (def_clock_d dc s s1 Hex D1 M1) as Hk1. injection Hk1 as Hts1 Hlto1.
    assert (Hm1' : msg_rtd (e_big c) (s_fdescs s1) m1) by (rewrite Q1; exact Hm1).
    destruct (comp_record_rtd dc (e_big c) m1 t local body tail s1 (f_fb f) Hex Hbuf Hm1' Ht Hl4 Hbody1 T1 B1 Hdef1 Hcf Hnfd1) as (s2 & D2 & (R2 & B2 & C2 & H2) & T2 & F2 & M2 & Q2).
    cbn [m_num m_fields m_devs m1] in M2. fold hb hc in M2.
    pose proof (comp_clock_d dc s1 s2 _ _ _ _ _ Hex D2 M2 Hhcomp) as Hk2. rewrite Hnots, Hckeq, Hts1, Hlto1 in Hk2. rewrite Hts1, Hlto1 in M2.
    rewrite len_app in Hcur. assert (Ld : len (N.lor h0 local :: r0) = len (h0 :: r0)) by reflexivity.
    assert (Lb : len (hb :: body) = 1 + len body) by (unfold len; cbn [length]; lia).
    assert (C1' : s_cur s1 = s_cur s + len (h0 :: r0)) by (rewrite C1; apply wrap32_small; lia).
    assert (C2' : s_cur s2 = s_cur s + len (h0 :: r0) + (1 + len body)) by (rewrite C2, C1'; apply wrap32_small; lia).
    exists s2, 2%nat, hb. eexists. exists f. split; [lia|]. split; [rewrite len_app, Lb; unfold len; cbn [length]; lia|].
    split. { intros fuel. change (2 + fuel)%nat with (S (S fuel)). rewrite (decode_messages_step _ _ _ _ D1) by lia.
             apply decode_messages_step; [exact D2|]. rewrite H1. lia. }
    split; [exact T2|]. split; [exact B2|]. split; [rewrite C2', len_app, Ld, Lb; lia|]. split; [congruence|]. split; [exact Ef|].
    split; [rewrite M2, M1; reflexivity|]. split; [exact Hli'|]. split; [exact Hlen'|].
    split; [|split; [rewrite F2, F1, replace_nth_length; exact Hl16|split; [rewrite Q2, Q1; reflexivity|split; [exact Hk2|split; reflexivity]]]].
    intros j Hj Hne. rewrite Hitems in Hne |- *. rewrite Hlen' in Hj. rewrite F2, F1.
    destruct (Nat.eq_dec j (N.to_nat local)) as [->|Hneq].
    + rewrite !nth_replace_same by lia. exists d. split; [exact Hdrt|]. split; [symmetry; exact Emd|]. rewrite N2Nat.id. reflexivity.
    + rewrite nth_replace_other in Hne |- * by congruence. rewrite nth_replace_other by congruence. apply Hdinv; assumption.
  - destruct Hitems as [Hsame Hnth].
    cbv beta iota delta [fst snd m_header] in Henc.
    match type of Henc with Ok (?x, ?y) = Ok _ => assert (Eb : b = x) by congruence; assert (Est : st' = y) by congruence end. subst b st'. clear Henc. cbv beta iota delta [es_lru es_lastts].
    change (concat ([] ++ [hb :: body])) with ((hb :: body) ++ []) in *. rewrite app_nil_r in *.
    destruct (Hdinv (N.to_nat local) Hidx) as (d0 & Hd0 & Hi0 & Hdef0); [rewrite Hnth; discriminate|].
    assert (Hdd : d0 = d) by (apply marshal_def_injd; [exact Hd0|exact Hdrt|rewrite <- Hi0, Hnth; symmetry; exact Emd]). subst d0.
    rewrite N2Nat.id in Hdef0.
    destruct (comp_record_rtd dc (e_big c) m1 t local body tail s (f_fb f) Hex Hbuf Hm1 Ht Hl4 Hbody1 Hrest Hb Hdef0 Hcf Hnfd1) as (s2 & D2 & (R2 & B2 & C2 & H2) & T2 & F2 & M2 & Q2).
    cbn [m_num m_fields m_devs m1] in M2. fold hb hc in M2.
    pose proof (comp_clock_d dc s s2 _ _ _ _ _ Hex D2 M2 Hhcomp) as Hk2. rewrite Hnots, Hckeq in Hk2.
    assert (Lb : len (hb :: body) = 1 + len body) by (unfold len; cbn [length]; lia).
    exists s2, 1%nat, hb. eexists. exists f. split; [lia|]. split; [rewrite Lb; lia|].
    split. { intros fuel. apply decode_messages_step; [exact D2|]. lia. }
    split; [exact T2|]. split; [exact B2|]. split; [rewrite C2, Lb; apply wrap32_small; lia|]. split; [exact H2|]. split; [exact Ef|].
    split; [exact M2|]. split; [exact Hli'|]. split; [exact Hlen'|].
    split; [|split; [rewrite F2; exact Hl16|split; [exact Q2|split; [exact Hk2|split; reflexivity]]]].
    intros j Hj Hne. rewrite Hsame in *. rewrite F2. apply Hdinv; assumption.
Qed.

(* ---------------------------------------------------------------- all messages *)
Definition msg_all (big : bool) (fds : list fdesc) (m : message) : Prop :=
  msg_rtd big fds m /\ ts_unique (m_fields m) /\ ts_ok m /\ ts_known m
  /\ (m_num m = mesgnum_FieldDescription -> field_by_num (m_fields m) FieldNumTimestamp = None).
Fixpoint msgs_all (big : bool) (fds : list fdesc) (ms : list message) : Prop :=
  match ms with [] => True | m :: r => msg_all big fds m /\ msgs_all big (next_fds fds m) r end.
Definition msg_simd (m' m : message) : Prop :=
  m_num m' = m_num m /\ m_devs m' = m_devs m /\ (m_fields m' = m_fields m \/ m_fields m' = ts_front (m_fields m)).

Lemma compress_needs_ts tsref lastts m h fs a b : compress_timestamp tsref lastts m = (Some (h, fs), a, b) -> field_by_num (m_fields m) FieldNumTimestamp <> None.
Proof.
  unfold compress_timestamp. destruct encoder_tracks_last_timestamp.
  - unfold ts_field_u32. destruct (field_by_num (m_fields m) FieldNumTimestamp); [discriminate|]. discriminate.
  - unfold field_value_by_num, u32_of. destruct (field_by_num (m_fields m) FieldNumTimestamp); [discriminate|]. cbn. discriminate.
Qed.

Lemma messages_all c dc : e_compressed c = true -> encoder_tracks_last_timestamp = true -> c_expand dc = false -> 765 <= c_bufsize dc ->
  forall ms st acc out st' fds, msgs_all (e_big c) fds ms -> linv (es_lru st) -> (0 < length (l_items (es_lru st)) <= 4)%nat ->
  encode_messages c st ms acc = Ok (out, st') ->
  exists recs, out = acc ++ recs /\
    forall s tail fuel, s_fdescs s = fds -> dinvd (es_lru st) (s_defs s) -> length (s_defs s) = 16%nat -> R (es_lastts st) (clk s) ->
      s_rest s = recs ++ tail -> bufok s ->
      s_cur s + len recs = h_datasize (s_header s) -> h_datasize (s_header s) < 4294967296 -> (length recs <= fuel)%nat ->
      exists s' decoded, decode_messages fuel dc s = Ok s' /\ s_rest s' = tail /\ bufok s' /\ s_header s' = s_header s
                 /\ s_msgs s' = rev decoded ++ s_msgs s /\ Forall2 msg_simd decoded ms.
Proof.
  intros Hcomp Hflag Hex Hbuf. induction ms as [|m ms IH]; intros st acc out st' fds Hrt Hli Hsz Henc; cbn [encode_messages] in Henc.
  - injection Henc as <- <-. exists []. rewrite app_nil_r. split; [reflexivity|].
    intros s tail fuel _ _ _ _ Hrest Hb Hcur _ _. exists s, []. change (len (@nil N)) with 0 in Hcur.
    split; [apply decode_messages_done; lia|]. split; [exact Hrest|]. split; [exact Hb|]. split; [reflexivity|]. split; [reflexivity|constructor].
  - destruct Hrt as [Hm Hms]. unfold bind in Henc.
    destruct (encode_message c st m) as [[b st1]| | |] eqn:Em; try discriminate.
    destruct (encode_message_lru c st m b st1 Hli ltac:(lia) Em) as [Hli1 Hlen1].
    destruct (IH st1 (acc ++ b) out st' _ Hms Hli1 ltac:(lia) Henc) as (recs' & Hout & Hdec).
    exists (b ++ recs'). split; [rewrite Hout, app_assoc; reflexivity|].
    intros s tail fuel Hfds Hdinv Hl16 HR Hrest Hb Hcur Hds Hfuel.
    rewrite <- app_assoc in Hrest. rewrite len_app in Hcur.
    destruct Hm as (Hmrt & Hu & Hok & Htk & Hfdts). rewrite <- Hfds in Hmrt.
    pose proof (step_sim Hflag (es_tsref st) (es_lastts st) (clk s) m HR Hok) as Hstep. unfold enc_wire in Hstep.
    destruct (compress_timestamp (es_tsref st) (es_lastts st) m) as [[cmp ta] tb] eqn:Ecmp.
    assert (Hnext : forall s1 k m1, (1 <= k)%nat -> N.of_nat k <= len b -> (forall fuel, decode_messages (k + fuel) dc s = decode_messages fuel dc s1) ->
              s_rest s1 = recs' ++ tail -> bufok s1 -> s_cur s1 = s_cur s + len b -> s_header s1 = s_header s -> s_msgs s1 = m1 :: s_msgs s -> msg_simd m1 m ->
              s_fdescs s1 = next_fds fds m -> dinvd (es_lru st1) (s_defs s1) -> length (s_defs s1) = 16%nat -> R (es_lastts st1) (clk s1) ->
              exists s' decoded, decode_messages fuel dc s = Ok s' /\ s_rest s' = tail /\ bufok s' /\ s_header s' = s_header s
                 /\ s_msgs s' = rev decoded ++ s_msgs s /\ Forall2 msg_simd decoded (m :: ms)).
    { intros s1 k m1 Hk1 Hk2 Hstepk T1 B1 C1 H1 M1 Hsim Hfds1 Hdinv1 Hl161 HR1.
      rewrite app_length in Hfuel. unfold len in Hk2.
      replace fuel with (k + (fuel - k))%nat by lia. rewrite Hstepk.
      destruct (Hdec s1 tail (fuel - k)%nat Hfds1 Hdinv1 Hl161 HR1 T1 B1) as (s' & dec' & D' & T' & B' & H' & M' & F'); [rewrite H1, C1; lia|rewrite H1; exact Hds|lia|].
      exists s', (m1 :: dec'). split; [exact D'|]. split; [exact T'|]. split; [exact B'|]. split; [congruence|].
      split; [rewrite M', M1; cbn [rev]; rewrite <- app_assoc; reflexivity|]. constructor; assumption. }
    destruct cmp as [[h fs']|].
    + cbn [dec_clock] in Hstep. destruct Hstep as [Ho HR'].
      assert (Hnfd : m_num m <> mesgnum_FieldDescription).
      { intros Hfd. apply (compress_needs_ts _ _ _ _ _ _ _ Ecmp). apply Hfdts. exact Hfd. }
      destruct (message_some_d c dc st m b st1 s (recs' ++ tail) h fs' ta tb Hcomp Ecmp Hex Hbuf Hmrt Hu Htk Hnfd Hli Hsz Hdinv Hl16 Em Hrest Hb ltac:(lia) Hds)
        as (s1 & k & mh & tsv & f & Hk1 & Hk2 & Hstepk & T1 & B1 & C1 & H1 & Ef & M1 & _ & _ & Hdinv1 & Hl161 & Hfd1 & Hclk1 & Htsv & Hlast).
      apply (Hnext s1 k _ Hk1 Hk2 Hstepk T1 B1 C1 H1 M1); try assumption.
      * unfold msg_simd. cbn [m_num m_devs m_fields]. split; [reflexivity|]. split; [reflexivity|]. right. unfold ts_front. rewrite Ef. f_equal.
        rewrite (ts_of_field_u32 m f Ef) in Ho. symmetry in Ho. apply ts_of_field_value in Ho. cbn [clk fst snd] in Ho. rewrite <- Htsv in Ho.
        destruct (Htk f Ef) as (_ & Hkn & Hexp).
        destruct f as [fb kn v ex]. cbn in *. subst kn ex v. reflexivity.
      * rewrite Hfd1, Hfds. unfold next_fds. replace (m_num m =? mesgnum_FieldDescription) with false by (symmetry; apply N.eqb_neq; exact Hnfd). reflexivity.
      * rewrite Hlast, Hclk1. exact HR'.
    + assert (Hcmp : (if e_compressed c then compress_timestamp (es_tsref st) (es_lastts st) m else (None, es_tsref st, es_lastts st)) = (None, ta, tb)) by (rewrite Hcomp; exact Ecmp).
      destruct (message_none_d c dc st m b st1 s (recs' ++ tail) ta tb Hcmp Hex Hbuf Hmrt Hli ltac:(lia) Hdinv Hl16 Em Hrest Hb ltac:(lia) Hds)
        as (s1 & k & mh & Hk1 & Hk2 & Hstepk & T1 & B1 & C1 & H1 & M1 & Hfd1 & _ & _ & Hdinv1 & Hl161 & Hclk1 & Hlast).
      apply (Hnext s1 k _ Hk1 Hk2 Hstepk T1 B1 C1 H1 M1); try assumption.
      * unfold msg_simd. cbn [m_num m_devs m_fields]. split; [reflexivity|]. split; [reflexivity|]. left. reflexivity.
      * rewrite Hfd1, Hfds. reflexivity.
      * rewrite Hlast, Hclk1, (clock_after_fields m (clk s) Hu).
        destruct (dec_clock (clk s) (match ts_field_u32 m with Some ts => Full ts | None => NoTs end)) as [o ck'] eqn:Ed. cbn [snd]. apply Hstep.
Qed.

(* ---------------------------------------------------------------- one sequence, chains *)
#[local] Opaque write le_bytes.
Lemma one_sequence_all c f r dc s tail :
  e_compressed c = true -> encoder_tracks_last_timestamp = true -> c_expand dc = false -> 765 <= c_bufsize dc ->
  encode_fit c f = Ok r -> msgs_all (e_big c) [] (er_msgs r) -> len (er_bytes r) < 4294967296 -> bytes_ok (er_bytes r) ->
  boundary_ck s -> s_rest s = er_bytes r ++ tail ->
  exists ft s', decode_one dc s = Ok (ft, s') /\ Forall2 msg_simd (fit_msgs ft) (er_msgs r) /\ boundary_ck s' /\ s_rest s' = tail.
Proof.
  intros Hcomp Hflag Hex Hbuf Henc Hrt Hlen Hok [[(Hb0 & Hc0 & Hd0 & Hm0 & Hts0 & Hlto0) Hf0] Hcrc0] Hrest.
  destruct (encode_fit_inv2 c f r Henc) as (hb & records & st & ver & pv & Hbytes & Hem & Hne & (Hhlen & Hh12) & Hfcrc & Hhcrc).
  set (hsize := if ef_hsize f =? 12 then 12 else 14) in *.
  assert (Hsz : hsize = 12 \/ hsize = 14) by (unfold hsize; destruct (ef_hsize f =? 12); auto).
  assert (Hsz4 : (0 < length (l_items (es_lru (es_init c))) <= 4)%nat).
  { unfold es_init, lru_init, local_types. cbn [es_lru l_items]. rewrite repeat_length, Hcomp. lia. }
  destruct (messages_all c dc Hcomp Hflag Hex Hbuf (er_msgs r) (es_init c) [] records st [] Hrt (linv_init _) Hsz4 Hem) as (recs & Hrec & Hdec).
  cbn [app] in Hrec. subst recs.
  destruct (encode_messages_acc _ _ _ _ _ _ Hem) as (x & Hx & Hds & _). cbn [app] in Hx. subst x.
  cbn [es_init es_datasize] in Hds. rewrite N.add_0_l in Hds.
  pose proof (datasize_small c _ _ _ _ _ Hem ltac:(cbn; lia)) as Hsmall.
  assert (Hlr : len records < 4294967296) by (rewrite Hbytes, !len_app in Hlen; lia).
  assert (Hdsz : es_datasize st = len records) by (rewrite <- (RoundtripSeq.wrap32_small (es_datasize st) Hsmall), Hds; apply RoundtripSeq.wrap32_small; exact Hlr).
  assert (Hrne : len records <> 0).
  { destruct (er_msgs r) as [|m0 ms0]; [contradiction|]. cbn [encode_messages] in Hem. unfold bind in Hem.
    destruct (encode_message c (es_init c) m0) as [[b0 st0]| | |] eqn:E0; try discriminate.
    pose proof (encode_message_nonempty _ _ _ _ _ E0) as Hb0'. destruct (encode_messages_acc _ _ _ _ _ _ Hem) as (x & -> & _).
    cbn [app]. rewrite len_app. destruct b0; [contradiction|unfold len; cbn [length]; lia]. }
  rewrite Hbytes in Hok. apply Forall_app in Hok. destruct Hok as [Hokh Hok]. apply Forall_app in Hok. destruct Hok as [Hokr _].
  assert (Hok12 : bytes_ok (firstn 12 hb)) by (apply Forall_forall; intros x Hx; rewrite Forall_forall in Hokh; apply Hokh; apply (in_firstn 12 hb); exact Hx).
  rewrite Hbytes in Hrest. rewrite <- !app_assoc in Hrest.
  assert (Hhc14 : hsize = 14 -> skipn 12 hb = le_bytes 2 (write 0 (firstn 12 hb))) by (unfold hsize; destruct (ef_hsize f =? 12) eqn:E12; [discriminate|intros _; apply Hhcrc; reflexivity]).
  destruct (header_total_any dc s hb (records ++ le_bytes 2 (er_crc r) ++ tail) hsize ver pv (es_datasize st) Hbuf Hb0 Hcrc0 Hrest Hhlen Hsz Hh12 Hhc14 Hok12 Hsmall ltac:(lia))
    as (s1 & D1 & R1 & B1 & C1 & F1 & M1 & H1 & Cr1).
  assert (Hclk1 : clk s1 = (0, 0)) by (pose proof (header_clk dc s) as W; rewrite D1 in W; rewrite W; unfold clk; rewrite Hts0, Hlto0; reflexivity).
  assert (Hf1 : s_fdescs s1 = []) by (pose proof (header_fdescs dc s) as W; rewrite D1 in W; rewrite W; exact Hf0).
  destruct (Hdec s1 (le_bytes 2 (er_crc r) ++ tail) (S (length (s_rest s1)))) as (s2 & decoded & D2 & R2 & B2 & H2 & M2 & F2).
  { exact Hf1. }
  { rewrite F1, Hd0. apply dinvd_init. }
  { rewrite F1, Hd0. reflexivity. }
  { rewrite Hclk1. unfold R, W32. cbn. repeat split; lia. }
  { exact R1. }
  { exact B1. }
  { rewrite C1, Hc0, H1, Hdsz. reflexivity. }
  { rewrite H1. exact Hsmall. }
  { rewrite R1, app_length. lia. }
  pose proof (crc_after_records dc _ s1 s2 records _ B1 ltac:(rewrite C1, Hc0; lia) Cr1 D2 R1 R2) as Hcrc2.
  assert (Hl2 : len (le_bytes 2 (er_crc r)) = 2) by (unfold len; rewrite le_bytes_length; reflexivity).
  destruct (read_raw_ok dc s2 2 B2 ltac:(lia) Hbuf) as (s3 & E3 & R3 & B3 & _ & _ & Cr3 & H3 & K3); [rewrite R2, len_app, Hl2; lia|].
  assert (Hb2 : take 2 (s_rest s2) = le_bytes 2 (er_crc r)) by (rewrite R2; replace 2 with (len (le_bytes 2 (er_crc r))) by exact Hl2; apply take_app_len).
  assert (Hcrcv : le_word (le_bytes 2 (er_crc r)) = er_crc r).
  { apply le_roundtrip. rewrite Hfcrc. change (256 ^ N.of_nat 2) with 65536. apply (C18_state_bounded records Hokr). }
  assert (Hchk : (c_checksum dc && negb (s_crc s3 =? le_word (take 2 (s_rest s2)))) = false).
  { rewrite Cr3, Hcrc2, Hb2, Hcrcv, Hfcrc. destruct (c_checksum dc); [rewrite N.eqb_refl|]; reflexivity. }
  eexists. eexists. split.
  - unfold decode_one, bind. rewrite D1, D2. unfold decode_crc, bind. rewrite E3, Hchk. reflexivity.
  - cbn [fit_msgs snd fst]. split.
    + destruct K3 as (_ & _ & _ & _ & _ & _ & _ & _ & K3m & _). cbn [push_event upd_crc upd_read s_msgs]. rewrite K3m, M2, M1, Hm0. rewrite app_nil_r, rev_involutive. exact F2.
    + split; [split; [split; [apply reset_seq_boundary; exact B3|reflexivity]|reflexivity]|]. cbn [reset_seq push_event upd_crc upd_read s_rest].
      rewrite R3, R2. replace 2 with (len (le_bytes 2 (er_crc r))) by exact Hl2. apply drop_app_len.
Qed.

Theorem roundtrip_all_compressed c dc fs out : e_compressed c = true -> encoder_tracks_last_timestamp = true -> c_expand dc = false -> 765 <= c_bufsize dc ->
  fs <> [] -> encode_fits c fs [] = Ok out ->
  exists rs, Forall2 (fun f r => encode_fit c f = Ok r) fs rs /\ out = concat (map er_bytes rs) /\
    (Forall (fun r => msgs_all (e_big c) [] (er_msgs r) /\ len (er_bytes r) < 4294967296 /\ bytes_ok (er_bytes r)) rs ->
     exists fts, decode_stream dc out = Ok fts /\ Forall2 (fun ft r => Forall2 msg_simd (fit_msgs ft) (er_msgs r)) fts rs).
Proof.
  intros Hcomp Hflag Hex Hbuf Hne Henc. destruct (encode_fits_concat c fs [] out Henc) as (rs & HF & Hout). cbn [app] in Hout.
  exists rs. split; [exact HF|]. split; [exact Hout|]. intros Hgood. subst out.
  apply (chain_roundtrip dc (fun r => (exists f, encode_fit c f = Ok r) /\ msgs_all (e_big c) [] (er_msgs r) /\ len (er_bytes r) < 4294967296 /\ bytes_ok (er_bytes r))
           (fun ms' ms => Forall2 msg_simd ms' ms) boundary_ck).
  - intros bs. unfold boundary_ck, boundary_d, boundary_state, bufok. cbn. repeat split; lia.
  - intros r s tail ((f & Hf) & Hm & Hl & Hk) Hb Hr. apply (one_sequence_all c f r dc s tail); assumption.
  - intros r ((f & Hf) & _). eapply encode_fit_nonempty; exact Hf.
  - destruct rs; [inversion HF; subst; contradiction|discriminate].
  - clear Hne Henc. induction HF as [|f r fs rs Hfr HF IH]; [constructor|]. inversion Hgood as [|? ? (H1 & H2 & H2') H3]; subst.
    constructor; [split; [exists f; exact Hfr|split; [assumption|split; assumption]]|apply IH; exact H3].
Qed.
