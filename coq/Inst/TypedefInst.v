(* C17 -- profile/typedef/*_gen.go: round trips, uniqueness, agreement with the Types sheet (complete, vm_compute). *)
From Coq Require Import NArith ZArith String List Bool.
Import ListNotations.
From Fit Require Import Model.Profile Model.ProfileRows Model.ProfileCheck Proofs.ProfileCheckProofs.
From Fit Require gen.ProfileSpec gen.Typedef gen.TypedefRun.
Open Scope N_scope.

Lemma typedefs_ok : typedefs_ok_b Typedef.typedefs = true.
Proof. vm_compute. reflexivity. Qed.

Lemma typedefs_good : (forall td, In td Typedef.typedefs -> typedef_good td) /\ NoDup (map td_name Typedef.typedefs).
Proof. exact (typedefs_ok_sound Typedef.typedefs typedefs_ok). Qed.

Lemma typedefs_match_sheet_b_true :
  typedefs_match_sheet_b (types_of name_fixes ProfileSpec.type_rows) Typedef.typedefs = true.
Proof. vm_compute. reflexivity. Qed.

Lemma typedefs_count : List.length Typedef.typedefs = N.to_nat Typedef.n_typedefs.
Proof. vm_compute. reflexivity. Qed.

(* the translation of profile/typedef/*_gen.go agrees with the running package: for every element c of every ListX():
   (value, c.String(), XFromString(c.String())) as computed from the translated case lists = as returned by the code *)
Lemma typedef_run_agrees : typedef_run_agrees_b Typedef.typedefs TypedefRun.runtime_typedefs = true.
Proof. vm_compute. reflexivity. Qed.
