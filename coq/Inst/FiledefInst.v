(* C14 -- the translated specifications of all file types (gen/FiledefSpec.v) satisfy the well-formedness the generic
   theorems need; the translated comparator is the stated order and reads the field the profile names "timestamp".
   Complete enumeration of finite tables by vm_compute. *)
From Coq Require Import NArith ZArith List Bool String.
Import ListNotations.
From Fit Require Import Model.Filedef Model.FiledefTables gen.FiledefSpec Proofs.FiledefProofs.
Open Scope N_scope.

Theorem all_wf : forallb wf_fspec fspecs = true.
Proof. vm_compute. reflexivity. Qed.
Lemma specs_wf sp : In sp fspecs -> wf_fspec sp = true.
Proof. apply (proj1 (forallb_forall _ _) all_wf). Qed.

Theorem cmp_wf : wf_cmp cmp = true.
Proof. vm_compute. reflexivity. Qed.

Theorem filesets_wf : filesets_ok = true.
Proof. vm_compute. reflexivity. Qed.

Theorem ts_names : ts_names_ok = true.
Proof. vm_compute. reflexivity. Qed.

(* every file type that does not sort everything after the prefix violates the ordering clause on its witness *)
Theorem refuted_where_not_all : refutes_all cmp fspecs = true.
Proof. vm_compute. reflexivity. Qed.
