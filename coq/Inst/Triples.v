(* Inst/Triples.v -- the distinct (base type, scale, offset) triples of the factory table (fields, sub-fields,
   components), computed from gen/Factory.v inside Coq.  16-bit triples first (they cost most to sweep). *)
From Coq Require Import ZArith NArith List Bool.
Import ListNotations.
From Fit Require Import Model.Float Model.Profile Model.Scale Model.Sweep gen.Factory.

Definition n_shards : nat := 16.
Definition triples_all : list triple := Eval vm_compute in all_triples mesgs.
Definition triples16 : list triple := Eval vm_compute in (triples_of_width mesgs 9 16 ++ triples_of_width mesgs 1 8).
Definition triples32 : list triple := Eval vm_compute in triples_of_width mesgs 17 32.
Definition triples64 : list triple := Eval vm_compute in triples_of_width mesgs 33 64.

Lemma triples_all_eq : triples_all = all_triples mesgs. Proof. vm_compute. reflexivity. Qed.
Lemma triples16_eq : triples16 = triples_of_width mesgs 9 16 ++ triples_of_width mesgs 1 8. Proof. vm_compute. reflexivity. Qed.
Lemma triples32_eq : triples32 = triples_of_width mesgs 17 32. Proof. vm_compute. reflexivity. Qed.
Lemma triples64_eq : triples64 = triples_of_width mesgs 33 64. Proof. vm_compute. reflexivity. Qed.
