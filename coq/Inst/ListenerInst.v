(* C14 -- listener.go has the structure the protocol model was written for (gen/ListenerSpec.v). *)
From Coq Require Import List Bool Arith Lia.
Import ListNotations.
From Fit Require Import Model.Listener gen.ListenerSpec.

Theorem lspec_wf : wf_lspec lspec = true.
Proof. vm_compute. reflexivity. Qed.

Fixpoint mentions_buf (e : cexpr) : bool :=
  match e with CBuf => true | CConst _ => false | CPlus a b => mentions_buf a || mentions_buf b end.
Lemma ceval_ge e : mentions_buf e = true -> forall b, b <= ceval e b.
Proof.
  induction e as [|n|a IHa b' IHb]; cbn; intros H b; [lia|discriminate|]. apply orb_prop in H. destruct H as [H|H].
  - specialize (IHa H b). lia.
  - specialize (IHb H b). lia.
Qed.
Definition pool_cap (ls : lspec_t) : cexpr := let '(_, cap, _) := pool_rebuild ls in cap.
Lemma pool_size_nonzero ls buf : buf <> 0 -> pool_size ls buf = ceval (pool_cap ls) buf.
Proof.
  intros Hb. unfold pool_size, configure, pool_cap, fresh_obj. destruct (pool_rebuild ls) as [[g cap] fill]. cbn [fst snd].
  assert (E : Nat.eqb 0 buf = false) by (apply Nat.eqb_neq; lia). destruct g; rewrite E; reflexivity.
Qed.
Theorem pool_cap_mentions_buf : mentions_buf (pool_cap lspec) = true.
Proof. vm_compute. reflexivity. Qed.
(* every non-zero channel-buffer option gives a non-empty pool *)
Theorem pool_positive buf : 1 <= buf -> 1 <= pool_size lspec buf.
Proof. intros H. rewrite pool_size_nonzero by lia. pose proof (ceval_ge _ pool_cap_mentions_buf buf). lia. Qed.
(* ... and so does 0 on a source whose Reset builds the pool when it is still nil, with one slot more than the option
   (holds since fix: b34bd23; on a tree without it the first case does not compute to a positive number) *)
Theorem pool_always_positive buf : 1 <= pool_size lspec buf.
Proof. destruct buf as [|b]; [vm_compute; lia | apply pool_positive; lia]. Qed.
