(* C15 -- the side condition evaluated on the footprint extracted from the sources (coq/gen/Footprint.v). *)
From Coq Require Import NArith List String Bool.
Import ListNotations.
From Fit Require Import Model.FootprintTypes Model.Footprint Proofs.FootprintProofs gen.Footprint.
Open Scope list_scope.

(* every access of every extracted function satisfies the side condition, except (a) the documented set-up functions
   (Model.Footprint.setup_ops) and (b) the known finding: the store to options.Factory in the generated ToMesg methods.
   When the sources are repaired (b) is empty and this is footprint_ok modulo set-up. *)
Theorem footprint_side_condition : unexplained accesses = [].
Proof. vm_compute. reflexivity. Qed.

(* the body of every package-level Once loads only locations nothing else stores to: it computes the same table whoever runs it *)
Theorem once_bodies_deterministic : once_bodies_ok accesses = true.
Proof. vm_compute. reflexivity. Qed.

(* the extraction saw the code base: a few hundred functions with shared accesses *)
Theorem footprint_nonempty : (200 <=? N.of_nat (List.length (keys_of accesses [])))%N = true /\ (1000 <=? n_functions)%N = true.
Proof. vm_compute. split; reflexivity. Qed.

Definition options_loc : location := LOption "mesgdef.Options" "Factory".

(* the witness, computed once *)
Definition witness_now : option access := Eval vm_compute in options_witness accesses.
Lemma witness_now_eq : options_witness accesses = witness_now.
Proof. vm_compute. reflexivity. Qed.

Definition refuted_by (accs : list access) (a : access) : Prop :=
  In a (offenders accs) /\ is_options_factory_write a = true /\ a_guard a = GNone /\
  footprint_ok accs = false /\ fn_ok accs (key a) = false /\
  In (SWrite options_loc) (fn_shapes accs (key a)) /\
  forall priv inits (p : list (instr priv)) x1 x2 s0, map shape_of p = fn_shapes accs (key a) ->
    exists s ts, steps inits (s0, [start p x1; start p x2]) (s, ts) /\ racy inits (s, ts).

Definition no_options_write (accs : list access) : Prop :=
  forall a, In a (offenders accs) -> is_options_factory_write a = false.

Lemma refuted_cases : forall accs, (forall a, options_witness accs = Some a -> refuted_by accs a) ->
  match options_witness accs with Some a => refuted_by accs a | None => no_options_write accs end.
Proof.
  intros accs H. destruct (options_witness accs) as [a|] eqn:E.
  - apply H. reflexivity.
  - intros a Hin. unfold options_witness in E. apply (find_none _ _ E). exact Hin.
Qed.

Lemma refuted_now : forall a, options_witness accesses = Some a -> refuted_by accesses a.
Proof.
  intros a E. pose proof (find_some_offender _ _ E) as [Hin Hw].
  rewrite witness_now_eq in E. unfold witness_now in E.
  first [ discriminate E
        | injection E as E';
          assert (Hsh : In (SWrite options_loc) (fn_shapes accesses (key a)))
            by (rewrite <- E'; apply in_swrite_by_search; vm_compute; reflexivity);
          split; [exact Hin|];
          split; [exact Hw|];
          split; [rewrite <- E'; reflexivity|];
          split; [vm_compute; reflexivity|];
          split; [rewrite <- E'; vm_compute; reflexivity|];
          split; [exact Hsh|];
          intros priv inits p x1 x2 s0 Hp; apply (unguarded_write_races inits p options_loc); rewrite Hp; exact Hsh ].
Qed.

(* the known finding as a refutation of the side condition, with the extracted witness; the None branch once the store is gone *)
Theorem options_refuted :
  match options_witness accesses with Some a => refuted_by accesses a | None => no_options_write accesses end.
Proof. exact (refuted_cases accesses refuted_now). Qed.
