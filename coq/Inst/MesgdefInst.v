(* C13 -- the translated specifications of all typed messages are well-formed against the factory table served by
   the implementation (gen/Factory.v): complete enumeration by vm_compute. *)
From Coq Require Import NArith List Bool String.
Import ListNotations.
From Fit Require Import Model.Profile Model.Mesgdef.
From Fit Require gen.Factory gen.MesgdefSpec.
Open Scope N_scope.

Definition pc : profile_consts :=
  mkpc MesgdefSpec.basetype_table MesgdefSpec.ptype_bool MesgdefSpec.ptype_date_time MesgdefSpec.ptype_local_date_time.
Definition std_fac : N -> N -> option fieldbase := Factory.factory.

Definition wf_spec_b (s : mspec) : bool := wf_mspec pc Factory.mesgs s.

Lemma all_wf : forallb wf_spec_b MesgdefSpec.mspecs = true.
Proof. vm_compute. reflexivity. Qed.

(* one typed message per factory message and vice versa *)
Lemma specs_cover_factory :
  (N.of_nat (List.length MesgdefSpec.mspecs) =? Factory.n_mesgs) &&
  nodup_b (map ms_num MesgdefSpec.mspecs) &&
  forallb (fun p => existsb (fun s => ms_num s =? fst p) MesgdefSpec.mspecs) Factory.mesgs &&
  (N.of_nat (List.length (flat_map ms_fields MesgdefSpec.mspecs)) =? Factory.n_fields) = true.
Proof. vm_compute. reflexivity. Qed.

(* ---- consequences used by Props/C13.v *)
Lemma wf_of_in s : In s MesgdefSpec.mspecs -> wf_mspec pc Factory.mesgs s = true.
Proof. intros H. exact (proj1 (forallb_forall _ _) all_wf s H). Qed.

Lemma wf_core_of_in s : In s MesgdefSpec.mspecs -> wf_core std_fac s = true.
Proof. intros H. pose proof (wf_of_in s H) as W. unfold wf_mspec in W. apply andb_prop in W. exact (proj1 W). Qed.

Lemma find_field_some fbs n fb : find_field fbs n = Some fb -> In fb fbs /\ fb_num fb = n.
Proof.
  induction fbs as [|f r IH]; cbn; [discriminate|]. destruct (N.eqb_spec (fb_num f) n) as [E|E].
  - intros H. injection H as <-. split; [left; reflexivity|exact E].
  - intros H. destruct (IH H) as [H1 H2]. split; [right; exact H1|exact H2].
Qed.

(* every field the factory defines for the message has a struct field reading it *)
Lemma every_field_has_slot s : In s MesgdefSpec.mspecs -> forall n fb, std_fac (ms_num s) n = Some fb ->
  exists mf, In mf (ms_fields s) /\ mf_num mf = n.
Proof.
  intros H n fb Hf. pose proof (wf_of_in s H) as W. unfold wf_mspec in W. apply andb_prop in W. destruct W as [_ W].
  unfold wf_profile in W. unfold std_fac, Factory.factory, lookup in Hf.
  destruct (find_mesg Factory.mesgs (ms_num s)) as [fbs|]; [|discriminate].
  repeat (apply andb_prop in W; destruct W as [W ?]).
  destruct (find_field_some _ _ _ Hf) as [Hin Hn].
  match goal with Hx : forallb (fun fb0 => existsb _ (ms_fields s)) fbs = true |- _ => pose proof (proj1 (forallb_forall _ _) Hx fb Hin) as He end.
  apply existsb_exists in He. destruct He as (mf & Hmf & E). exists mf. split; [exact Hmf|]. apply N.eqb_eq in E. congruence.
Qed.
