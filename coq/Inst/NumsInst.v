(* C17 -- profile/untyped/mesgnum and fieldnum constants against the sheet and the served factory (complete, vm_compute). *)
From Coq Require Import NArith ZArith String List Bool.
Import ListNotations.
From Fit Require Import Model.Profile Model.ProfileRows Model.ProfileCheck Proofs.ProfileCheckProofs.
From Fit Require gen.ProfileSpec gen.Nums gen.FactoryNames.
Open Scope N_scope.

Definition expected_mesgnum_list : list (string * N) :=
  match expected_mesgnums (types_of name_fixes ProfileSpec.type_rows) with Some l => l | None => [] end.
Definition expected_fieldnum_list : list (string * N) := expected_fieldnums (mesgs_of name_fixes ProfileSpec.mesg_rows).

Lemma mesgnums_defined : expected_mesgnums (types_of name_fixes ProfileSpec.type_rows) <> None.
Proof. vm_compute. discriminate. Qed.
Lemma mesgnums_match_b : same_consts expected_mesgnum_list Nums.mesgnum_consts = true.
Proof. vm_compute. reflexivity. Qed.
Lemma fieldnums_match_b : same_consts expected_fieldnum_list Nums.fieldnum_consts = true.
Proof. vm_compute. reflexivity. Qed.
Lemma nums_cover_factory : nums_cover_factory_b Nums.mesgnum_consts Nums.fieldnum_consts FactoryNames.names = true.
Proof. vm_compute. reflexivity. Qed.
