(* C17 -- the spreadsheet against the factory the implementation serves: complete comparisons by vm_compute. *)
From Coq Require Import NArith ZArith String List Bool.
Import ListNotations.
From Fit Require Import Model.Profile Model.ProfileRows Model.ProfileCheck Proofs.ProfileCheckProofs.
From Fit Require gen.ProfileSpec gen.Factory gen.FactoryNames gen.ProfileTypes gen.Nums.
Open Scope N_scope.

Definition sheet_types : list ptype := types_of name_fixes ProfileSpec.type_rows.
Definition sheet_mesgs : list mesg := mesgs_of name_fixes ProfileSpec.mesg_rows.

(* (2) the factory table, entry by entry *)
Lemma factory_matches_spreadsheet :
  expected_table name_fixes ProfileSpec.type_rows ProfileSpec.mesg_rows = Some Factory.mesgs.
Proof. apply opt_table_eqb_eq. vm_compute. reflexivity. Qed.

(* (2) names and units of fields and sub-fields *)
Lemma names_match_spreadsheet :
  expected_names name_fixes ProfileSpec.type_rows ProfileSpec.mesg_rows = FactoryNames.names.
Proof. apply names_eqb_eq. vm_compute. reflexivity. Qed.

(* known finding spelling_corrected_names: without RULE 10 the names do NOT agree *)
Lemma literal_names_differ :
  expected_names [] ProfileSpec.type_rows ProfileSpec.mesg_rows <> FactoryNames.names.
Proof. apply (list_eqb_neq nameentry_eqb nameentry_eqb_refl). vm_compute. reflexivity. Qed.

(* the numeric table does not depend on the corrections *)
Lemma factory_matches_literal_reading :
  expected_table [] ProfileSpec.type_rows ProfileSpec.mesg_rows = Some Factory.mesgs.
Proof. apply opt_table_eqb_eq. vm_compute. reflexivity. Qed.

(* the reading is well formed: names unique, every component name is a field of its message (RULE 6 never falls back) *)
Lemma sheet_well_formed :
  (accum_rule_total sheet_mesgs && mesg_names_unique sheet_mesgs && field_names_unique sheet_mesgs && type_names_unique sheet_types)%bool = true.
Proof. vm_compute. reflexivity. Qed.

Lemma factory_counts : (List.length Factory.mesgs, List.length FactoryNames.names) = (N.to_nat Factory.n_mesgs, N.to_nat Factory.n_fields).
Proof. vm_compute. reflexivity. Qed.

(* (3b) (3c) on the table the implementation serves *)
Lemma factory_sorted : table_sorted_b Factory.mesgs = true.
Proof. vm_compute. reflexivity. Qed.
Lemma factory_refs_resolve_b : refs_resolve_b Factory.mesgs = true.
Proof. vm_compute. reflexivity. Qed.
Lemma factory_bits_fit_b : bits_fit_b ProfileTypes.basetypes Factory.mesgs = true.
Proof. vm_compute. reflexivity. Qed.

Lemma factory_refs_resolve : forall m f fb, Factory.factory m f = Some fb ->
    (forall c, In c (fb_comps fb) -> exists fb', Factory.factory m (c_num c) = Some fb') /\
    (forall s, In s (fb_subs fb) ->
       (forall mp, In mp (s_maps s) -> exists fb', Factory.factory m (fst mp) = Some fb') /\
       (forall c, In c (s_comps s) -> exists fb', Factory.factory m (c_num c) = Some fb')).
Proof. exact (refs_resolve_sound Factory.mesgs factory_refs_resolve_b). Qed.

Lemma factory_bits_fit : forall m f fb, Factory.factory m f = Some fb ->
    exists cap, capacity ProfileTypes.basetypes fb = Some cap /\
      Forall (fun c => c_bits c <= 32) (fb_comps fb) /\ sum_bits (fb_comps fb) <= cap /\
      (forall s, In s (fb_subs fb) -> Forall (fun c => c_bits c <= 32) (s_comps s) /\ sum_bits (s_comps s) <= cap).
Proof. exact (bits_fit_sound ProfileTypes.basetypes Factory.mesgs factory_bits_fit_b). Qed.

(* (3e) ProfileType numbers, names and BaseType() of the running implementation = RULE 7 / RULE 8 on the sheet *)
Lemma profile_types_match :
  expected_ptypes sheet_types = map (fun p => (fst (fst p), snd (fst p), Some (snd p))) ProfileTypes.ptypes.
Proof. vm_compute. reflexivity. Qed.
Lemma profile_types_string_roundtrip : ProfileTypes.ptypes_from_string = map (fun p => fst (fst p)) ProfileTypes.ptypes
  /\ ProfileTypes.ptypes_listed = map (fun p => fst (fst p)) ProfileTypes.ptypes.
Proof. split; vm_compute; reflexivity. Qed.
Lemma base_types_match : basetypes_match_b sheet_types ProfileTypes.basetypes = true.
Proof. vm_compute. reflexivity. Qed.

(* (3f) version *)
Lemma version_ok : version_ok_b Nums.version_major Nums.version_minor Nums.version_const ProfileTypes.profile_version_const = true.
Proof. vm_compute. reflexivity. Qed.
