(* Inst/SweepTable.v -- the 16 sweep shards put together: the table of complete 8/16-bit sweeps, one entry per
   triple of Inst/Triples.triples16, with the obligations that it is what Model/Sweep.sweep_of computes and that every
   entry is good (rounding loses nothing, truncation at most one unit toward zero, the setter guard never fires). *)
From Coq Require Import ZArith NArith List Bool.
Import ListNotations.
From Fit Require Import Model.Float Model.Profile Model.Scale Model.Sweep Inst.Triples.
From Fit Require Inst.Sweep16_00 Inst.Sweep16_01 Inst.Sweep16_02 Inst.Sweep16_03 Inst.Sweep16_04 Inst.Sweep16_05 Inst.Sweep16_06 Inst.Sweep16_07
  Inst.Sweep16_08 Inst.Sweep16_09 Inst.Sweep16_10 Inst.Sweep16_11 Inst.Sweep16_12 Inst.Sweep16_13 Inst.Sweep16_14 Inst.Sweep16_15.

Definition shard_tables : list (list (triple * sweep)) :=
  [Sweep16_00.table; Sweep16_01.table; Sweep16_02.table; Sweep16_03.table; Sweep16_04.table; Sweep16_05.table; Sweep16_06.table; Sweep16_07.table;
   Sweep16_08.table; Sweep16_09.table; Sweep16_10.table; Sweep16_11.table; Sweep16_12.table; Sweep16_13.table; Sweep16_14.table; Sweep16_15.table].
Definition sweep_table : list (triple * sweep) := concat shard_tables.

Lemma shard_tables_eq : shard_tables = map (fun i => sweep_shard i n_shards triples16) (seq 0 n_shards).
Proof.
  unfold shard_tables. cbn [seq map n_shards].
  rewrite Sweep16_00.table_eq, Sweep16_01.table_eq, Sweep16_02.table_eq, Sweep16_03.table_eq, Sweep16_04.table_eq, Sweep16_05.table_eq,
    Sweep16_06.table_eq, Sweep16_07.table_eq, Sweep16_08.table_eq, Sweep16_09.table_eq, Sweep16_10.table_eq, Sweep16_11.table_eq,
    Sweep16_12.table_eq, Sweep16_13.table_eq, Sweep16_14.table_eq, Sweep16_15.table_eq.
  reflexivity.
Qed.

Lemma sweep_table_good : forallb (fun ts => sweep_good (snd ts)) sweep_table = true.
Proof.
  unfold sweep_table, shard_tables. cbn [concat]. rewrite !forallb_app.
  rewrite Sweep16_00.good, Sweep16_01.good, Sweep16_02.good, Sweep16_03.good, Sweep16_04.good, Sweep16_05.good, Sweep16_06.good, Sweep16_07.good,
    Sweep16_08.good, Sweep16_09.good, Sweep16_10.good, Sweep16_11.good, Sweep16_12.good, Sweep16_13.good, Sweep16_14.good, Sweep16_15.good.
  reflexivity.
Qed.

(* every triple has its entry *)
Lemma sweep_table_covers : forallb (fun t => triple_mem t (map fst sweep_table)) triples16 = true.
Proof. vm_compute. reflexivity. Qed.
