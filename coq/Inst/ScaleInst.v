(* Inst/ScaleInst.v -- instantiation of the C12 theorems on the generated tables (gen/Factory.v, gen/ScaledAccessors.v,
   gen/ConvMode.v): the sweeps cover every 8/16-bit triple of the factory; every 32-bit triple satisfies the bounds of
   the error analysis; no 64-bit or non-integer field is scaled; every generated accessor pair carries the factory's
   scale/offset/base type in both directions and converts the way the template does. *)
From Coq Require Import ZArith NArith List Bool Floats Lia.
Import ListNotations.
From Fit Require Import Model.Float Model.Profile Model.Scale Model.Sweep Model.Routes gen.Factory gen.ConvMode gen.ScaledAccessors.
From Fit Require Import Proofs.FloatProofs Proofs.SweepProofs Proofs.ScaledRoundtrip32 Inst.Triples Inst.SweepTable.

(* ------------------------------------------------------------------ 8/16-bit: from the table to every triple *)
Lemma sweep16_good (t : triple) : In t triples16 -> sweep_good (sweep_of t) = true.
Proof.
  exact (table_good_generic sweep_table shard_tables triples16 n_shards eq_refl shard_tables_eq sweep_table_good sweep_table_covers t).
Qed.

Lemma triples16_bits : forallb (fun t => let '(bt, _, _) := t in (0 <? bt_bits bt)%Z && (bt_bits bt <=? 16)%Z) triples16 = true.
Proof. vm_compute. reflexivity. Qed.

Lemma triples16_complete (bt sb ob : N) :
  In (bt, sb, ob) (all_triples mesgs) -> (1 <= bt_bits bt <= 16)%Z -> In (bt, sb, ob) triples16.
Proof.
  intros Hin Hb. rewrite triples16_eq. apply in_or_app. unfold triples_of_width.
  destruct (Z_le_gt_dec (bt_bits bt) 8) as [H8|H8]; [right|left]; apply filter_In; (split; [exact Hin|]);
    apply andb_true_iff; split; apply Z.leb_le; lia.
Qed.

Section Sixteen.
  Variables (bt sb ob : N).
  Hypothesis Hin : In (bt, sb, ob) (all_triples mesgs).
  Hypothesis Hb : (1 <= bt_bits bt <= 16)%Z.

  Lemma bits16 : (0 < bt_bits bt <= 16)%Z. Proof. lia. Qed.

  Theorem sixteen_round (k : rkind) (mu : conv_mode) (x : Z) :
    in_range bt x -> rt_kind k mu Round bt (f64_of_bits sb) (f64_of_bits ob) x = x.
  Proof. apply good_kind_round; [exact bits16|apply sweep16_good, triples16_complete; assumption]. Qed.

  Theorem sixteen_trunc (k : rkind) (mu : conv_mode) (x : Z) :
    in_range bt x -> toward_zero x (rt_kind k mu Trunc bt (f64_of_bits sb) (f64_of_bits ob) x).
  Proof. apply good_kind_trunc; [exact bits16|apply sweep16_good, triples16_complete; assumption]. Qed.
End Sixteen.

(* what the derived mode of a route obliges: the full statement when it rounds, the partial one when it truncates *)
Definition expected_for (m : conv_mode) (k : rkind) : Prop :=
  forall bt sb ob, In (bt, sb, ob) (all_triples mesgs) -> (1 <= bt_bits bt <= 16)%Z -> forall x, in_range bt x ->
    let r := rt_kind k mode_discard_slice_unscaled m bt (f64_of_bits sb) (f64_of_bits ob) x in
    match m with Round => r = x | Trunc => toward_zero x r end.

Theorem sixteen_current (r : route) : expected_for (route_mode r) (route_kind r).
Proof.
  unfold expected_for. intros bt sb ob Hin Hb x Hr. cbv zeta.
  destruct (route_mode r); [apply sixteen_trunc|apply sixteen_round]; assumption.
Qed.

(* the truncating model does lose values: the property's own witnesses *)
Theorem trunc_refuted : exists bt sb ob x, In (bt, sb, ob) (all_triples mesgs) /\ in_range bt x /\
  rt_helper Trunc bt (f64_of_bits sb) (f64_of_bits ob) x <> x.
Proof.
  exists 132%N, 4636737291354636288%N, 0%N, 29%Z. split; [|split].
  - rewrite <- triples_all_eq. apply triple_mem_In. vm_compute. reflexivity.
  - vm_compute. split; [discriminate|reflexivity].
  - vm_compute. discriminate.
Qed.
Example trunc_witnesses :
  rt_helper Trunc 132 100 0 29 = 28%Z /\ rt_helper Trunc 132 100 0 16039 = 16038%Z /\ rt_helper Trunc 132 5 500 1 = 0%Z /\
  rt_helper Round 132 100 0 29 = 29%Z /\ rt_helper Round 132 100 0 16039 = 16039%Z /\ rt_helper Round 132 5 500 1 = 1%Z.
Proof. vm_compute. repeat split. Qed.

(* ------------------------------------------------------------------ 32-bit: every triple is inside the bounds *)
Definition triple32_ok (t : triple) : bool :=
  let '(bt, sb, ob) := t in
  (bt_bits bt =? 32)%Z && bounds_ok (f64_of_bits sb) (f64_of_bits ob) && negb (is_unscaled (f64_of_bits sb) (f64_of_bits ob)) &&
  (bt_invalid bt =? (if bt_signed bt then 2147483647 else 4294967295))%Z.
Lemma triples32_ok : forallb triple32_ok triples32 = true.
Proof. vm_compute. reflexivity. Qed.

Theorem thirtytwo_round (bt sb ob : N) (k : rkind) (mu : conv_mode) (x : Z) :
  In (bt, sb, ob) (all_triples mesgs) -> (17 <= bt_bits bt <= 32)%Z -> in_range bt x ->
  rt_kind k mu Round bt (f64_of_bits sb) (f64_of_bits ob) x = x.
Proof.
  intros Hin Hb Hr.
  assert (H32 : In (bt, sb, ob) triples32).
  { rewrite triples32_eq. unfold triples_of_width. apply filter_In. split; [exact Hin|]. apply andb_true_iff; split; apply Z.leb_le; lia. }
  pose proof triples32_ok as Hok. rewrite forallb_forall in Hok. specialize (Hok _ H32). unfold triple32_ok in Hok.
  rewrite !andb_true_iff in Hok. destruct Hok as [[[Hbits Hbnd] Hsc] Hinv].
  apply Z.eqb_eq in Hbits, Hinv. apply negb_true_iff in Hsc.
  apply kind_round_32; try assumption; [lia|].
  rewrite Hinv. unfold in_range, in_int_range in Hr. rewrite Hbits in Hr.
  destruct (bt_signed bt); change (2 ^ (32 - 1))%Z with 2147483648%Z in Hr; change (2 ^ 32)%Z with 4294967296%Z in Hr; lia.
Qed.

(* ------------------------------------------------------------------ nothing else is scaled *)
Lemma no_scaled_64 : triples64 = [].
Proof. reflexivity. Qed.
Lemma scaled_are_integers : forallb (fun t => let '(bt, _, _) := t in (0 <? bt_bits bt)%Z && (bt_bits bt <=? 32)%Z) triples_all = true.
Proof. vm_compute. reflexivity. Qed.

(* ------------------------------------------------------------------ generated accessors against the factory *)
Definition accessor_ok (a : accessor) : bool :=
  N.eqb (a_gscale a) (a_sscale a) && N.eqb (a_goffset a) (a_soffset a) && conv_mode_eqb (a_mode a) mode_setter_template &&
  match factory (a_mesgnum a) (a_fieldnum a) with
  | Some fb => N.eqb (fb_scale fb) (a_gscale a) && N.eqb (fb_offset fb) (a_goffset a) && N.eqb (fb_base fb) (a_base a) &&
               scaled_bits (fb_scale fb) (fb_offset fb) &&
               match a_kind a with AScalar => negb (fb_array fb) | _ => fb_array fb end
  | None => false
  end.
Lemma accessors_ok : forallb accessor_ok accessors = true.
Proof. vm_compute. reflexivity. Qed.
Lemma accessors_counted : N.of_nat (length accessors) = n_accessors.
Proof. vm_compute. reflexivity. Qed.
(* and every scaled field of a message that has scaled accessors at all has its pair *)
Definition mesg_has_accessors (m : N) : bool := existsb (fun a => N.eqb (a_mesgnum a) m) accessors.
Definition field_has_accessor (m f : N) : bool := existsb (fun a => N.eqb (a_mesgnum a) m && N.eqb (a_fieldnum a) f) accessors.
Lemma accessors_complete :
  forallb (fun mf => let '(m, fs) := mf in
             negb (mesg_has_accessors m) ||
             forallb (fun fb => negb (scaled_bits (fb_scale fb) (fb_offset fb)) || field_has_accessor m (fb_num fb)) fs) mesgs = true.
Proof. vm_compute. reflexivity. Qed.
