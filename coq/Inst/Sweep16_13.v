(* Inst/Sweep16_13.v -- shard 13 of the complete 8/16-bit sweeps (see Model/Sweep.v, Inst/Triples.v).
   [table] is data for the correspondence check; [table_eq] and [good] are the proof obligations. *)
From Coq Require Import ZArith NArith List Bool.
From Fit Require Import Model.Float Model.Profile Model.Scale Model.Sweep Inst.Triples.

Definition table : list (triple * sweep) := Eval vm_compute in sweep_shard 13 n_shards triples16.
Lemma table_eq : table = sweep_shard 13 n_shards triples16.
Proof. vm_cast_no_check (eq_refl table). Qed.
Lemma good : forallb (fun ts => sweep_good (snd ts)) table = true.
Proof. vm_compute. reflexivity. Qed.
